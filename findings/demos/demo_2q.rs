use caches::{Cache, PutResult, TwoQueueCache};
#[test]
fn new_key_with_quota_zero_and_empty_recent_queue() {
    // recent ratio 0.0: quota floors to 0
    let mut c = TwoQueueCache::<u8, u8>::with_2q_parameters(2, 0.0, 1.0).unwrap();
    c.put(1, 1);
    c.put(2, 2);
    c.get(&1);
    c.get(&2); // both in frequent, recent empty, cache full
    let r = c.put(3, 3); // victim must fall back to the frequent queue
    assert_eq!(r, PutResult::Put);
    assert_eq!(c.len(), 2);
    assert!(c.contains(&3));
}
#[test]
fn ghost_hit_with_ratio_one_and_empty_frequent_queue() {
    let mut c = TwoQueueCache::<u8, u8>::with_2q_parameters(2, 1.0, 1.0).unwrap();
    c.put(1, 1);
    c.put(2, 2);
    c.put(3, 3); // 1 becomes a ghost, recent = [3, 2], frequent empty
    let r = c.put(1, 9); // ghost hit in a full cache: victim must fall back to the recent queue
    assert_eq!(r, PutResult::Update(1));
    assert_eq!(c.peek(&1), Some(&9));
    assert_eq!(c.len(), 2);
}
