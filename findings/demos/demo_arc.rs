use caches::{AdaptiveCache, Cache, PutResult};
#[test]
fn full_cache_makes_room_before_admitting() {
    let mut c = AdaptiveCache::<u8, u8>::new(1).unwrap();
    c.put(1, 1);
    c.put(2, 2); // 1 -> recent ghost list
    let r = c.put(1, 10); // ghost hit raises p to 1; the cache is full and must evict 2 first
    assert_eq!(r, PutResult::Update(1));
    assert!(c.len() <= c.cap(), "len {} > cap {}", c.len(), c.cap());
}
#[test]
fn ghost_hit_when_replace_pushes_the_hit_key_out_of_its_ghost_list() {
    let mut c = AdaptiveCache::<u8, u8>::new(2).unwrap();
    for k in 1..=4u8 { c.put(k, k); } // recent = [4,3], recent ghosts = [2,1]
    let r = c.put(1, 10); // hit on the LRU ghost while the ghost list is full
    assert_eq!(r, PutResult::Update(1));
    assert_eq!(c.peek(&1), Some(&10));
    assert_eq!(c.len(), 2);
}
