use caches::lfu::{SampledLFU, TinyLFU};
use caches::{Cache, RawLRU, TwoQueueCacheBuilder, TwoQueueCache, WTinyLFUCache, WTinyLFUCacheBuilder};

#[test]
fn from_empty_collection_does_not_panic() {
    let c: RawLRU<u8, u8> = RawLRU::from(Vec::<(u8, u8)>::new());
    assert_eq!(c.len(), 0);
    let d: RawLRU<u8, u8> = std::iter::empty().collect();
    assert!(d.is_empty());
}

#[test]
fn two_queue_builder_reports_zero_ghost_size_as_error() {
    // floor(1 * 0.5) == 0: with_2q_parameters returns Err, the builder must too
    assert!(TwoQueueCache::<u8, u8>::with_2q_parameters(1, 0.25, 0.5).is_err());
    let r = TwoQueueCacheBuilder::new(1).set_ghost_ratio(0.5).finalize::<u8, u8>();
    assert!(r.is_err());
}

#[test]
fn tinylfu_of_size_one_is_usable() {
    let mut l: TinyLFU<u64> = TinyLFU::new(1, 4, 0.01).unwrap();
    l.increment(&7);
    l.increment(&7);
    assert!(l.estimate(&7) >= 2);
}

#[test]
fn nan_false_positive_ratio_is_rejected() {
    assert!(TinyLFU::<u64>::new(16, 4, f64::NAN).is_err());
    let r = WTinyLFUCacheBuilder::<u64>::new(1, 1, 1, 4).set_false_positive_ratio(f64::NAN).finalize::<u64>();
    assert!(r.is_err());
    let _ = WTinyLFUCache::<u64, u64>::with_sizes(1, 1, 1, 4).unwrap();
}

#[test]
fn sampled_lfu_increment_on_tracked_key_keeps_accounting_exact() {
    let mut s = SampledLFU::<u64>::new(100);
    s.increment_hashed_key(1, 10);
    s.increment_hashed_key(1, 3); // replaces the recorded cost
    assert_eq!(s.room_left(0), 100 - 3);
    assert_eq!(s.remove_hashed_key(1), Some(3));
    assert_eq!(s.room_left(0), 100);
}
