use caches::{Cache, RawLRU, ResizableCache, PutResult};
#[test]
fn resize_zero_then_put_hands_pair_back() {
    let mut c = RawLRU::<u8, u8>::new(1).unwrap();
    c.put(1, 1);
    assert_eq!(c.resize(0), 1);
    assert_eq!(c.put(2, 3), PutResult::Evicted { key: 2, value: 3 });
    assert_eq!(c.len(), 0);
}
