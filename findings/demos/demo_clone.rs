use caches::{Cache, RawLRU};
#[test]
fn clone_keeps_recency_order() {
    // any hasher: with 8 entries some seed/orderings differ from recency order almost surely
    let mut c = RawLRU::<u32, u32>::new(8).unwrap();
    for i in 0..8 { c.put(i, i); }
    c.get(&3);
    let d = c.clone();
    let a: Vec<_> = c.iter().map(|(k, v)| (*k, *v)).collect();
    let b: Vec<_> = d.iter().map(|(k, v)| (*k, *v)).collect();
    assert_eq!(a, b);
}
