use caches::{Cache, PutResult, SegmentedCache};
#[test]
fn put_on_probationary_entry_with_protected_full_returns_update() {
    let mut c = SegmentedCache::<u8, u8>::new(2, 1).unwrap();
    c.put(1, 10);
    c.put(2, 20);
    c.get(&1); // 1 -> protected (now full)
    // 2 is probationary; protected is full: promotion demotes 1, nothing leaves the cache
    assert_eq!(c.put(2, 21), PutResult::Update(20));
    assert_eq!(c.peek(&2), Some(&21));
    assert_eq!(c.peek(&1), Some(&10));
}
#[test]
fn put_protected_on_probationary_key_does_not_duplicate() {
    let mut c = SegmentedCache::<u8, u8>::new(2, 2).unwrap();
    c.put(1, 10); // probationary
    c.put_protected(1, 11);
    assert_eq!(c.len(), 1);
    assert_eq!(c.probationary_len(), 0);
    assert_eq!(c.remove(&1), Some(11));
    assert!(!c.contains(&1));
}
