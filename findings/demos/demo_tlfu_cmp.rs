use caches::lfu::TinyLFU;
#[test]
fn comparisons_agree_with_estimates_right_after_a_reset() {
    let mut l: TinyLFU<u64> = TinyLFU::new(64, 8, 0.01).unwrap();
    for _ in 0..7 { l.increment(&1); }
    l.increment(&2); // 8th recorded access: reset (doorkeeper cleared, counters halved)
    let (e1, e2) = (l.estimate(&1), l.estimate(&2));
    assert!(e1 > e2, "estimates {} {}", e1, e2);
    assert_eq!(l.gt(&1, &2), e1 > e2);
    assert_eq!(l.lt(&2, &1), e2 < e1);
    assert_eq!(l.eq(&1, &2), e1 == e2);
}
