#!/usr/bin/env python3
"""Regenerates MANIFEST.json from lib/registry.py (single source of truth for what is claimed)."""
import json, os, sys
sys.path.insert(0, os.path.join(os.path.dirname(os.path.abspath(__file__)), 'lib'))
import registry

checks = []
for pid in sorted(registry.PROPERTIES):
    P = registry.PROPERTIES[pid]
    checks.append(dict(
        property_id=pid,
        quick_cmd='./run check %s --tier quick' % pid,
        thorough_cmd='./run check %s --tier thorough' % pid,
        evidence_file='/verif/evidence/%s.json' % pid,
        replay_cmd_template='./run replay {path}',
        engine=P.get('engine', 'verus+kani'),
        level_claimed=dict(category=P['level'], text=P['level_text'], design_ref=P.get('design_ref', 'DESIGN.md section 5')),
        level_note=P['level_note'],
        technique=P['technique'],
    ))
na = [dict(property_id=k, reason=v) for k, v in sorted(registry.NOT_APPLICABLE.items())]
m = dict(
    version=1,
    setup_cmd='./run setup',
    hooks=dict(
        guard='cargo feature verif-hooks (plus cfg(kani) for everything that is Kani-only)',
        enable='cargo kani --manifest-path /repo/Cargo.toml --features verif-hooks (engine K); engine V reads /repo/src directly and needs no hook',
        baseline_off_cmd='cd /repo && cargo test --workspace --no-fail-fast --offline',
        source_commits=registry.HOOK_COMMITS,
        add_only=registry.HOOKS_ADD_ONLY,
    ),
    engines=[
        dict(name='V', path='/verif/verus', serves_properties=sorted(p for p, v in registry.PROPERTIES.items() if any(registry.UNITS[u]['engine'] == 'verus' for u in registry.all_units(v))),
             kind_free_text='Verus (SMT, unbounded) on functions extracted byte-for-byte from /repo/src on every run, contracts spliced from overlays'),
        dict(name='K', path='/verif/kani', serves_properties=sorted(p for p, v in registry.PROPERTIES.items() if any(registry.UNITS[u]['engine'] == 'kani' for u in registry.all_units(v))),
             kind_free_text='Kani/CBMC contract harnesses (assume requires+invariant on an arbitrary symbolic state, call, assert ensures+invariant) on the real crate incl. unsafe code; bounded in list length, labelled bounded'),
    ],
    checks=checks,
    not_applicable=na,
    notes=registry.NOTES,
)
json.dump(m, open(os.path.join(os.path.dirname(os.path.abspath(__file__)), 'MANIFEST.json'), 'w'), indent=1)
print('MANIFEST.json: %d checks, %d not applicable' % (len(checks), len(na)))
