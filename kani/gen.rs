// Symbolic state generators shared by all harness files (Kani only).
#![allow(missing_docs, dead_code)]
use crate::lru::RawLRU;
use crate::verif_hooks::spec::*;
use crate::OnEvictCallback;
use core::hash::BuildHasher;

/// list-length / capacity bound of this build (quick: 2, thorough: 3); iterators use NMAX
pub const N: usize = NMAX - 1;

/// arbitrary abstract list state: cap in 0..=maxcap (0 only with n = 0: reachable through resize(0)),
/// n <= cap, keys pairwise distinct, values unconstrained
pub fn any_abs(maxcap: usize, mincap: usize) -> Abs {
    let cap: usize = kani::any();
    let n: usize = kani::any();
    kani::assume(cap >= mincap && cap <= maxcap && n <= cap && n <= NMAX);
    let a = Abs { cap, n, k: kani::any(), v: kani::any(), complete: true }.canon();
    kani::assume(a.distinct());
    a
}

pub fn build<S: BuildHasher, E: OnEvictCallback>(a: &Abs, hasher: S, cb: Option<E>) -> RawLRU<u8, u8, E, S> {
    RawLRU::verif_from_parts(a.cap, hasher, cb, a.n, |i| (a.k[i], a.v[i]))
}


/// like any_abs but with a CONCRETE length (keeps CBMC's points-to sets precise: harnesses are case-split by list length)
pub fn any_abs_n(n: usize, maxcap: usize, mincap: usize) -> Abs {
    let cap: usize = kani::any();
    kani::assume(cap >= mincap && cap <= maxcap && n <= cap);
    let a = Abs { cap, n, k: kani::any(), v: kani::any(), complete: true }.canon();
    kani::assume(a.distinct());
    a
}

/// same view as `build`, different allocation order and index slot order
pub fn build_rev<S: BuildHasher, E: OnEvictCallback>(a: &Abs, hasher: S, cb: Option<E>) -> RawLRU<u8, u8, E, S> {
    RawLRU::verif_from_parts_rev(a.cap, hasher, cb, a.n, |i| (a.k[i], a.v[i]))
}


// ------------------------------------------------------------------ drop-tracked payloads (C04 ghost state)

/// every key and value object carries an id; dropping it bumps DROPS[id]
pub const IDS: usize = 12;
static mut DROPS: [u8; IDS] = [0; IDS];

pub fn drops(id: u8) -> u8 {
    unsafe { DROPS[id as usize] }
}
pub fn set_drops(id: u8, n: u8) {
    unsafe { DROPS[id as usize] = n }
}
pub fn reset_drops() {
    unsafe { DROPS = [0; IDS] }
}

#[derive(PartialEq, Eq, Hash)]
pub struct Tk(pub u8);
pub struct Tv(pub u8);
impl Drop for Tk {
    fn drop(&mut self) {
        unsafe { DROPS[self.0 as usize] += 1 }
    }
}
impl Drop for Tv {
    fn drop(&mut self) {
        unsafe { DROPS[self.0 as usize] += 1 }
    }
}
impl Vid for Tk {
    fn vid(&self) -> u8 {
        self.0
    }
}
impl Vid for Tv {
    fn vid(&self) -> u8 {
        self.0
    }
}

/// ids of all keys and values of the given lists, as a bit mask
pub fn ids_of(lists: &[&Abs]) -> u32 {
    let mut m = 0u32;
    let mut li = 0;
    while li < lists.len() {
        let mut i = 0;
        while i < NMAX {
            if i < lists[li].n {
                m |= 1 << lists[li].k[i];
                m |= 1 << lists[li].v[i];
            }
            i += 1;
        }
        li += 1;
    }
    m
}

/// C04: of the objects handed to the cache (`created`), those still retained (ids of `retained`) were never
/// dropped and every other one was dropped exactly once (the caller has already dropped what it got back)
pub fn conserved(created: u32, retained: u32) -> bool {
    let mut ok = true;
    let mut id = 0u8;
    while (id as usize) < IDS {
        let was_created = (created >> id) & 1 == 1;
        let is_retained = (retained >> id) & 1 == 1;
        let want = if was_created && !is_retained { 1 } else { 0 };
        if drops(id) != want {
            ok = false;
        }
        id += 1;
    }
    ok
}

/// arbitrary list view for tracked payloads: key ids below 6, value ids in 6..12, value ids distinct
pub fn any_tracked_abs(maxcap: usize, mincap: usize) -> Abs {
    let a = any_abs(maxcap, mincap);
    let mut i = 0;
    while i < NMAX {
        if i < a.n {
            kani::assume(a.k[i] < 6 && a.v[i] >= 6 && a.v[i] < 12);
            let mut j = 0;
            while j < i {
                kani::assume(a.v[i] != a.v[j]);
                j += 1;
            }
        }
        i += 1;
    }
    a
}

pub fn build_tracked<S: BuildHasher>(a: &Abs, hasher: S) -> RawLRU<Tk, Tv, crate::DefaultEvictCallback, S> {
    RawLRU::verif_from_parts(a.cap, hasher, None, a.n, |i| (Tk(a.k[i]), Tv(a.v[i])))
}

/// value ids of the lists are pairwise distinct across lists
pub fn values_distinct(lists: &[&Abs]) -> bool {
    let mut seen = 0u32;
    let mut ok = true;
    let mut li = 0;
    while li < lists.len() {
        let mut i = 0;
        while i < NMAX {
            if i < lists[li].n {
                if (seen >> lists[li].v[i]) & 1 == 1 {
                    ok = false;
                }
                seen |= 1 << lists[li].v[i];
            }
            i += 1;
        }
        li += 1;
    }
    ok
}
