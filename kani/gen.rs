// Symbolic state generators shared by all harness files (Kani only).
#![allow(missing_docs, dead_code)]
use crate::lru::RawLRU;
use crate::verif_hooks::spec::*;
use crate::OnEvictCallback;
use core::hash::BuildHasher;

/// list-length / capacity bound of this build (quick: 2, thorough: 3); iterators use NMAX
pub const N: usize = NMAX - 1;

/// arbitrary abstract list state: cap in 0..=maxcap (0 only with n = 0: reachable through resize(0)),
/// n <= cap, keys pairwise distinct, values unconstrained
pub fn any_abs(maxcap: usize, mincap: usize) -> Abs {
    let cap: usize = kani::any();
    let n: usize = kani::any();
    kani::assume(cap >= mincap && cap <= maxcap && n <= cap && n <= NMAX);
    let a = Abs { cap, n, k: kani::any(), v: kani::any(), complete: true }.canon();
    kani::assume(a.distinct());
    a
}

pub fn build<S: BuildHasher, E: OnEvictCallback>(a: &Abs, hasher: S, cb: Option<E>) -> RawLRU<u8, u8, E, S> {
    RawLRU::verif_from_parts(a.cap, hasher, cb, a.n, |i| (a.k[i], a.v[i]))
}


/// like any_abs but with a CONCRETE length (keeps CBMC's points-to sets precise: harnesses are case-split by list length)
pub fn any_abs_n(n: usize, maxcap: usize, mincap: usize) -> Abs {
    let cap: usize = kani::any();
    kani::assume(cap >= mincap && cap <= maxcap && n <= cap);
    let a = Abs { cap, n, k: kani::any(), v: kani::any(), complete: true }.canon();
    kani::assume(a.distinct());
    a
}

/// same view as `build`, different allocation order and index slot order
pub fn build_rev<S: BuildHasher, E: OnEvictCallback>(a: &Abs, hasher: S, cb: Option<E>) -> RawLRU<u8, u8, E, S> {
    RawLRU::verif_from_parts_rev(a.cap, hasher, cb, a.n, |i| (a.k[i], a.v[i]))
}
