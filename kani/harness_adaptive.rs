// K-ARC: AdaptiveCache contracts (C09, and C01/C02/C03/C05/C12/C13/C14 for this cache type).
// Non-blocking check: Kani's `assert!` assumes its condition afterwards, so the first failing conjunct of a contract
// would hide every later one on the same path (and with it the verdicts of the other properties that harness serves).
// `ck!` performs the check on a nondeterministically chosen side branch, so every conjunct is reported independently.
macro_rules! ck {
    ($c:expr, $m:literal) => {
        if kani::any::<bool>() {
            assert!($c, $m);
        }
    };
    ($c:expr) => {
        assert!($c)
    };
}

use super::*;
use crate::verif_hooks::gen::{any_abs, build, N};
use crate::verif_hooks::spec::*;
use crate::verif_hooks::PoisonHasher;
use crate::{Cache, PutResult};

pub type Arc4 = AdaptiveCache<u8, u8, PoisonHasher, PoisonHasher, PoisonHasher, PoisonHasher>;

/// Arbitrary state satisfying the ARC invariant: four well-formed lists of capacity `size`, pairwise
/// disjoint, |T1| + |T2| <= size, 0 <= p <= size.
pub fn any_arc() -> (Arc4, ArcAbs) {
    let size: usize = kani::any();
    let p: usize = kani::any();
    kani::assume(size >= 1 && size <= N && p <= size);
    let t1 = any_abs(N, 1);
    let t2 = any_abs(N, 1);
    let b1 = any_abs(N, 1);
    let b2 = any_abs(N, 1);
    kani::assume(t1.cap == size && t2.cap == size && b1.cap == size && b2.cap == size);
    kani::assume(t1.n + t2.n <= size);
    kani::assume(partitioned(&[&t1, &t2, &b1, &b2]));
    let c = Arc4::verif_from_parts(size, p, build(&t1, PoisonHasher, None), build(&b1, PoisonHasher, None), build(&t2, PoisonHasher, None), build(&b2, PoisonHasher, None));
    (c, ArcAbs { size, p, recent: t1, frequent: t2, recent_evict: b1, frequent_evict: b2 })
}

macro_rules! arc_inv {
    ($c:expr, $wf:expr, $pre:expr, $post:expr) => {
        ck!($wf, "[C03.wf] the four ARC lists are well-formed chains matching their indexes (nodes migrate between them)");
        ck!($post.recent.n + $post.frequent.n <= $post.size, "[C01.cap][C09.room] resident entries (recent + frequent) never exceed cap(): a full cache makes room before admitting");
        ck!($post.recent_evict.n <= $post.size && $post.frequent_evict.n <= $post.size, "[C01.cap] each ghost list stays within its bound");
        ck!($post.p <= $post.size, "[C09.p] 0 <= p <= size");
        ck!($post.size == $pre.size && $post.recent.cap == $pre.size && $post.frequent.cap == $pre.size
            && $post.recent_evict.cap == $pre.size && $post.frequent_evict.cap == $pre.size, "[C01.cap] configured sizes never change");
        ck!(partitioned(&[&$post.recent, &$post.frequent, &$post.recent_evict, &$post.frequent_evict]), "[C01.partition] a key is held in at most one of the four lists");
        ck!($c.len() == $post.recent.n + $post.frequent.n && $c.cap() == $pre.size, "[C01.len] len() counts the resident entries, cap() is the configured size");
        ck!($c.is_empty() == ($post.recent.n + $post.frequent.n + $post.recent_evict.n + $post.frequent_evict.n == 0), "[C01.empty] is_empty() iff nothing (resident or ghost) is retained");
    };
}

/// C12 for ARC: the PutResult tells the truth, ghost entries may be discarded silently, resident entries may not
fn arc_put_truthful(pre: &ArcAbs, post: &ArcAbs, k: u8, v: u8, r: PR) -> bool {
    let pre_all: [&Abs; 4] = [&pre.recent, &pre.frequent, &pre.recent_evict, &pre.frequent_evict];
    let post_all: [&Abs; 4] = [&post.recent, &post.frequent, &post.recent_evict, &post.frequent_evict];
    let before = lookup(&pre_all, k);
    let verdict = match r {
        PR::Put => before.is_none(),
        PR::Update(o) => before == Some(o),
        _ => false, // nothing but ghosts ever leaves an ARC cache during a put, and those leave silently
    };
    // every previously resident entry other than k is still retained (resident or ghost) with its value, except
    // that the ONE entry demoted by this put may already have been trimmed from its ghost list again
    // ("ARC may discard ghost entries silently": at that moment it is a ghost)
    let mut lost = 0;
    let mut li = 0;
    while li < 2 {
        let l = if li == 0 { &pre.recent } else { &pre.frequent };
        let mut i = 0;
        while i < NMAX {
            if i < l.n && l.k[i] != k {
                match lookup(&post_all, l.k[i]) {
                    Some(x) => {
                        if x != l.v[i] {
                            lost += 2;
                        }
                    }
                    None => lost += 1,
                }
            }
            i += 1;
        }
        li += 1;
    }
    let kept = lost <= 1;
    // nothing appears from nowhere: every retained key afterwards was retained before, or is k
    let mut no_new = true;
    let mut li = 0;
    while li < 4 {
        let l = post_all[li];
        let mut i = 0;
        while i < NMAX {
            if i < l.n && l.k[i] != k && lookup(&pre_all, l.k[i]) != Some(l.v[i]) {
                no_new = false;
            }
            i += 1;
        }
        li += 1;
    }
    verdict && kept && no_new && lookup(&[&post.recent, &post.frequent], k) == Some(v)
}

/// replace(): which list gives up its least-recent entry (true = recent/T1), per C09
fn victim_from_recent(t1: usize, t2: usize, p: usize, frequent_ghost_hit: bool) -> bool {
    let prefer_recent = t1 > p || (t1 == p && frequent_ghost_hit);
    if prefer_recent { t1 > 0 } else { t2 == 0 }
}

/// ghost list after an operation: optional new front entry, then a subsequence of the old ghosts without `gone`
fn ghost_ok(post: &Abs, pre: &Abs, front: Option<(u8, u8)>, gone: Option<u8>) -> bool {
    let rest = match front {
        Some(f) => {
            if post.first() != Some(f) {
                return false;
            }
            post.tail()
        }
        None => *post,
    };
    let not_gone = match gone {
        Some(g) => !post.has(g),
        None => true,
    };
    not_gone && rest.subseq_of(pre)
}









// One harness for `put`: CBMC executes every branch of the real `put` symbolically whatever the key's
// location is assumed to be, so the five cases share one run; the postcondition is selected by where the key
// was in the pre-state.
#[kani::proof]
#[kani::unwind(6)]
fn arc_put() {
    let (mut c, pre) = any_arc();
    let k: u8 = kani::any();
    let v: u8 = kani::any();
    let full = pre.recent.n + pre.frequent.n >= pre.size;
    let in_resident = pre.recent.has(k) || pre.frequent.has(k);
    let in_b1 = pre.recent_evict.has(k);
    let in_b2 = pre.frequent_evict.has(k);
    let is_new = !in_resident && !in_b1 && !in_b2;

    kani::cover!((in_resident) && (pre.recent.has(k)), "arc put: recent hit");
    kani::cover!((in_resident) && (pre.frequent.has(k) && pre.frequent.n >= 2), "arc put: frequent hit among several [N>=2]");

    kani::cover!((in_b1) && (!full), "arc B1 hit: room");
    kani::cover!((in_b1) && (full && pre.frequent.n == 0), "arc B1 hit: full, frequent empty");
    kani::cover!((in_b1) && (full && pre.recent.n == 0), "arc B1 hit: full, recent empty");
    kani::cover!((in_b1) && (full && pre.recent_evict.n == pre.size), "arc B1 hit: full and B1 full");
    kani::cover!((in_b1) && (pre.frequent_evict.n > pre.recent_evict.n), "arc B1 hit: delta > 1 [N>=2]");

    kani::cover!((in_b2) && (!full), "arc B2 hit: room");
    kani::cover!((in_b2) && (full && pre.frequent.n == 0), "arc B2 hit: full, frequent empty");
    kani::cover!((in_b2) && (full && pre.recent.n == 0), "arc B2 hit: full, recent empty");
    kani::cover!((in_b2) && (full && pre.frequent_evict.n == pre.size), "arc B2 hit: full and B2 full");
    kani::cover!((in_b2) && (pre.recent_evict.n > pre.frequent_evict.n), "arc B2 hit: delta > 1 [N>=2]");

    kani::cover!((is_new) && (!full), "arc new key: room");
    kani::cover!((is_new) && (full && pre.frequent.n == 0 && pre.recent.n <= pre.p), "arc new key: full, frequent empty, recent not over p (fallback)");
    kani::cover!((is_new) && (full && pre.recent.n > pre.p), "arc new key: full, victim from recent");
    kani::cover!((is_new) && (full && pre.recent.n <= pre.p && pre.frequent.n > 0), "arc new key: full, victim from frequent");
    kani::cover!((is_new) && (pre.recent_evict.n == pre.size && pre.frequent_evict.n == pre.size), "arc new key: both ghost lists full");
    let r = c.put(k, v);
    let (post, wf) = c.verif_check();
    arc_inv!(c, wf, pre, post);
    if in_resident {
        ck!(arc_put_truthful(&pre, &post, k, v, pr_of(&r)), "[C12.result][C12.delta] put on a resident key reports Update(old); nothing leaves");
        if let Some(i) = pre.recent.pos(k) {
            ck!(pr_of(&r) == PR::Update(pre.recent.v[i]), "[C12.result] put on a recent entry returns Update(old)");
            ck!(post.recent.view_eq(&pre.recent.remove_at(i)) && post.frequent.view_eq(&pre.frequent.push_front(k, v)),
                "[C09.promote][C02.value] a second access by put moves the entry from recent to the front of frequent with the new value");
        } else {
            let i = pre.frequent.pos(k).unwrap();
            ck!(pr_of(&r) == PR::Update(pre.frequent.v[i]), "[C12.result] put on a frequent entry returns Update(old)");
            ck!(post.frequent.view_eq(&pre.frequent.touch(i, Some(v))) && post.recent == pre.recent, "[C09.frequent][C02.value] put on a frequent entry refreshes it with the new value");
        }
        ck!(post.p == pre.p && post.recent_evict == pre.recent_evict && post.frequent_evict == pre.frequent_evict, "[C09.p] a resident hit leaves p and the ghost lists alone");

    } else if in_b1 {
        let (b1, b2) = (pre.recent_evict.n, pre.frequent_evict.n);
        let delta = if b2 / b1 > 1 { b2 / b1 } else { 1 };
        let p2 = if pre.p + delta > pre.size { pre.size } else { pre.p + delta };
        ck!(post.p == p2, "[C09.p] a hit on the recent ghost list raises p by max(1, |frequent ghosts| / |recent ghosts|), capped at the cache size");
        let old = pre.recent_evict.val_of(k).unwrap();
        ck!(pr_of(&r) == PR::Update(old) && arc_put_truthful(&pre, &post, k, v, pr_of(&r)), "[C12.result][C12.delta] reviving a ghost returns Update(old); no resident entry leaves unreported");
        if !full {
            ck!(post.recent == pre.recent && post.frequent.view_eq(&pre.frequent.push_front(k, v)), "[C09.revive][C02.value] the ghost key is revived into the front of frequent");
            ck!(ghost_ok(&post.recent_evict, &pre.recent_evict, None, Some(k)) && ghost_ok(&post.frequent_evict, &pre.frequent_evict, None, None), "[C09.ghost] ghost lists only lose entries");
        } else {
            let from_recent = victim_from_recent(pre.recent.n, pre.frequent.n, p2, false);
            if from_recent {
                let vic = pre.recent.last().unwrap();
                ck!(post.recent.view_eq(&pre.recent.drop_last()) && post.frequent.view_eq(&pre.frequent.push_front(k, v)),
                    "[C09.victim][C09.revive] full: recent longer than p gives up its least-recent entry; the ghost key is revived into the front of frequent");
                ck!(ghost_ok(&post.recent_evict, &pre.recent_evict, Some(vic), Some(k)) && ghost_ok(&post.frequent_evict, &pre.frequent_evict, None, None),
                    "[C09.ghost] the victim is remembered at the front of the matching ghost list");
            } else {
                let vic = pre.frequent.last().unwrap();
                ck!(post.recent == pre.recent && post.frequent.view_eq(&pre.frequent.drop_last().push_front(k, v)),
                    "[C09.victim][C09.revive] full: otherwise frequent gives up its least-recent entry (falling back to the non-empty list)");
                ck!(ghost_ok(&post.frequent_evict, &pre.frequent_evict, Some(vic), None) && ghost_ok(&post.recent_evict, &pre.recent_evict, None, Some(k)),
                    "[C09.ghost] the victim is remembered at the front of the matching ghost list");
            }
        }

    } else if in_b2 {
        let (b1, b2) = (pre.recent_evict.n, pre.frequent_evict.n);
        let delta = if b1 / b2 > 1 { b1 / b2 } else { 1 };
        let p2 = if delta >= pre.p { 0 } else { pre.p - delta };
        ck!(post.p == p2, "[C09.p] a hit on the frequent ghost list lowers p by max(1, |recent ghosts| / |frequent ghosts|), floored at 0");
        let old = pre.frequent_evict.val_of(k).unwrap();
        ck!(pr_of(&r) == PR::Update(old) && arc_put_truthful(&pre, &post, k, v, pr_of(&r)), "[C12.result][C12.delta] reviving a ghost returns Update(old); no resident entry leaves unreported");
        if !full {
            ck!(post.recent == pre.recent && post.frequent.view_eq(&pre.frequent.push_front(k, v)), "[C09.revive][C02.value] the ghost key is revived into the front of frequent");
            ck!(ghost_ok(&post.frequent_evict, &pre.frequent_evict, None, Some(k)) && ghost_ok(&post.recent_evict, &pre.recent_evict, None, None), "[C09.ghost] ghost lists only lose entries");
        } else {
            let from_recent = victim_from_recent(pre.recent.n, pre.frequent.n, p2, true);
            if from_recent {
                let vic = pre.recent.last().unwrap();
                ck!(post.recent.view_eq(&pre.recent.drop_last()) && post.frequent.view_eq(&pre.frequent.push_front(k, v)),
                    "[C09.victim][C09.revive] full: recent longer than p (or equal to p on a frequent-ghost hit) gives up its least-recent entry");
                ck!(ghost_ok(&post.recent_evict, &pre.recent_evict, Some(vic), None) && ghost_ok(&post.frequent_evict, &pre.frequent_evict, None, Some(k)),
                    "[C09.ghost] the victim is remembered at the front of the matching ghost list");
            } else {
                let vic = pre.frequent.last().unwrap();
                ck!(post.recent == pre.recent && post.frequent.view_eq(&pre.frequent.drop_last().push_front(k, v)),
                    "[C09.victim][C09.revive] full: otherwise frequent gives up its least-recent entry (falling back to the non-empty list)");
                ck!(ghost_ok(&post.frequent_evict, &pre.frequent_evict, Some(vic), Some(k)) && ghost_ok(&post.recent_evict, &pre.recent_evict, None, None),
                    "[C09.ghost] the victim is remembered at the front of the matching ghost list");
            }
        }

    } else if is_new {
        ck!(pr_of(&r) == PR::Put && arc_put_truthful(&pre, &post, k, v, pr_of(&r)), "[C12.result][C12.delta] a new key is a Put: the demoted entry stays retained as a ghost, only ghosts leave (silently)");
        ck!(post.p == pre.p, "[C09.p] a brand-new key does not move p");
        if !full {
            ck!(post.recent.view_eq(&pre.recent.push_front(k, v)) && post.frequent == pre.frequent, "[C09.enter][C02.value] entries seen once sit at the front of the recent list");
            ck!(ghost_ok(&post.recent_evict, &pre.recent_evict, None, None) && ghost_ok(&post.frequent_evict, &pre.frequent_evict, None, None), "[C09.ghost] ghost lists only lose entries");
        } else {
            let from_recent = victim_from_recent(pre.recent.n, pre.frequent.n, pre.p, false);
            if from_recent {
                let vic = pre.recent.last().unwrap();
                ck!(post.recent.view_eq(&pre.recent.drop_last().push_front(k, v)) && post.frequent == pre.frequent,
                    "[C09.victim][C09.enter] full: recent longer than p gives up its least-recent entry, the new key enters the front of recent");
                ck!(post.recent_evict.subseq_of(&pre.recent_evict.push_front(vic.0, vic.1)) && ghost_ok(&post.frequent_evict, &pre.frequent_evict, None, None),
                    "[C09.ghost] the victim goes to the front of the matching ghost list; ghost lists otherwise only lose entries (ARC may trim them silently)");
            } else {
                let vic = pre.frequent.last().unwrap();
                ck!(post.recent.view_eq(&pre.recent.push_front(k, v)) && post.frequent.view_eq(&pre.frequent.drop_last()),
                    "[C09.victim][C09.enter] full: otherwise frequent gives up its least-recent entry (falling back to the non-empty list)");
                ck!(post.frequent_evict.subseq_of(&pre.frequent_evict.push_front(vic.0, vic.1)) && ghost_ok(&post.recent_evict, &pre.recent_evict, None, None),
                    "[C09.ghost] the victim goes to the front of the matching ghost list; ghost lists otherwise only lose entries (ARC may trim them silently)");
            }
        }

    }
    c.verif_forget();
}

#[kani::proof]
#[kani::unwind(6)]
fn arc_get() {
    let (mut c, pre) = any_arc();
    let k: u8 = kani::any();
    let mutable: bool = kani::any();
    let w: u8 = kani::any();
    kani::cover!(pre.frequent.has(k), "arc get: frequent hit");
    kani::cover!(pre.recent.has(k) && mutable, "arc get_mut: recent hit");
    kani::cover!(pre.recent.has(k) && !mutable, "arc get: recent hit");
    kani::cover!(pre.recent_evict.has(k) || pre.frequent_evict.has(k), "arc get: ghost key");
    let r = if mutable { c.get_mut(&k).map(|x| { let o = *x; *x = w; o }) } else { c.get(&k).copied() };
    let (post, wf) = c.verif_check();
    arc_inv!(c, wf, pre, post);
    let nv = if mutable { Some(w) } else { None };
    ck!(r == lookup(&[&pre.recent, &pre.frequent], k), "[C02.lookup] get/get_mut return exactly the stored value of a resident key; ghosts and absent keys give None");
    let mut exp = pre;
    if let Some(i) = pre.frequent.pos(k) {
        exp.frequent = pre.frequent.touch(i, nv);
    } else if let Some(i) = pre.recent.pos(k) {
        let nvv = match nv { Some(x) => x, None => pre.recent.v[i] };
        exp.recent = pre.recent.remove_at(i);
        exp.frequent = pre.frequent.push_front(k, nvv);
    }
    ck!(post.recent.view_eq(&exp.recent) && post.frequent.view_eq(&exp.frequent), "[C09.promote][C02.write] get/get_mut move a recent entry to the front of frequent, refresh a frequent one, and change nothing on a miss");
    ck!(post.p == pre.p && post.recent_evict == pre.recent_evict && post.frequent_evict == pre.frequent_evict, "[C09.p][C13.miss] lookups leave p and the ghost lists alone");
    c.verif_forget();
}

#[kani::proof]
#[kani::unwind(6)]
fn arc_readonly() {
    let (mut c, pre) = any_arc();
    let k: u8 = kani::any();
    let w: Option<u8> = kani::any();
    kani::cover!(pre.frequent.has(k) && w.is_some(), "arc peek_mut write: frequent");
    kani::cover!(pre.recent.has(k) && w.is_none(), "arc peek: recent hit");
    kani::cover!(pre.recent_evict.has(k), "arc peek: ghost key");
    let want = lookup(&[&pre.recent, &pre.frequent], k);
    ck!(c.peek(&k).copied() == want, "[C02.lookup] peek returns exactly the stored value of a resident key, None otherwise");
    ck!(c.contains(&k) == want.is_some(), "[C02.lookup] contains agrees with residency (a ghost is not resident)");
    ck!(c.recent_len() == pre.recent.n && c.frequent_len() == pre.frequent.n && c.recent_evict_len() == pre.recent_evict.n
        && c.frequent_evict_len() == pre.frequent_evict.n && c.partition() == pre.p, "[C01.len] per-list len accessors and partition() report the cache's own numbers");
    let got = match c.peek_mut(&k) {
        Some(x) => { let o = *x; if let Some(w) = w { *x = w; } Some(o) }
        None => None,
    };
    ck!(got == want, "[C02.lookup] peek_mut hands out the stored value of a resident key, None otherwise");
    let (post, wf) = c.verif_check();
    arc_inv!(c, wf, pre, post);
    let mut exp = pre;
    if let Some(w) = w {
        if let Some(i) = pre.recent.pos(k) { exp.recent = pre.recent.with_val(i, w); }
        if let Some(i) = pre.frequent.pos(k) { exp.frequent = pre.frequent.with_val(i, w); }
    }
    ck!(post == exp, "[C13.readonly][C02.write] peek, contains, accessors and peek_mut change nothing but a value written through peek_mut");
    c.verif_forget();
}

#[kani::proof]
#[kani::unwind(6)]
fn arc_remove_purge() {
    let (mut c, pre) = any_arc();
    let k: u8 = kani::any();
    let purge: bool = kani::any();
    kani::cover!(!purge && pre.frequent.has(k), "arc remove: frequent");
    kani::cover!(!purge && pre.recent.has(k), "arc remove: recent");
    kani::cover!(!purge && pre.frequent_evict.has(k), "arc remove: ghost key");
    kani::cover!(purge && pre.recent_evict.n > 0 && pre.recent.n > 0, "arc purge: populated");
    if purge {
        c.purge();
        let (post, wf) = c.verif_check();
        arc_inv!(c, wf, pre, post);
        ck!(post.recent.n + post.frequent.n + post.recent_evict.n + post.frequent_evict.n == 0 && c.is_empty(), "[C09.purge][C02.absent] purge releases every resident and ghost entry");
    } else {
        let r = c.remove(&k);
        let (post, wf) = c.verif_check();
        arc_inv!(c, wf, pre, post);
        if let Some(val) = lookup(&[&pre.recent, &pre.frequent], k) {
            ck!(r == Some(val), "[C02.remove] remove hands back the stored value of a resident key");
        }
        let all: [&Abs; 4] = [&pre.recent, &pre.frequent, &pre.recent_evict, &pre.frequent_evict];
        if lookup(&all, k).is_none() {
            ck!(r.is_none() && post == pre, "[C02.remove] removing a key that is not retained returns None and changes nothing");
        }
        ck!(!c.contains(&k) && holders(&[&post.recent, &post.frequent], k) == 0, "[C02.absent] a removed key is no longer resident");
        let rm = |a: &Abs| match a.pos(k) { Some(i) => a.remove_at(i), None => a.canon() };
        ck!(post.recent == rm(&pre.recent) && post.frequent == rm(&pre.frequent) && post.p == pre.p, "[C09.remove][C02.map] remove takes out exactly that key from the resident lists; order of everything else, and p, kept");
        // the statement says nothing about ghosts of a removed key: each ghost list is unchanged or has lost exactly that key
        ck!((post.recent_evict == pre.recent_evict.canon() || post.recent_evict == rm(&pre.recent_evict))
            && (post.frequent_evict == pre.frequent_evict.canon() || post.frequent_evict == rm(&pre.frequent_evict)), "[C09.remove] remove leaves the other ghosts alone");
    }
    c.verif_forget();
}

macro_rules! first_len {
    ($it:expr, $f:expr) => {{
        let mut it = $it;
        let n = it.len();
        (n, it.next().map($f))
    }};
}

macro_rules! arc_list_accessors {
    ($name:ident, $field:ident, $iter:ident, $iter_lru:ident, $iter_mut:ident, $iter_lru_mut:ident, $keys:ident, $keys_lru:ident,
     $values:ident, $values_lru:ident, $values_mut:ident, $values_lru_mut:ident) => {
        #[kani::proof]
        #[kani::unwind(6)]
        fn $name() {
            let (mut c, pre) = any_arc();
            let a = pre.$field;
            kani::cover!(a.n >= 2, "arc iterators: several entries [N>=2]");
            let kv = |p: (&u8, &u8)| (*p.0, *p.1);
            let kvm = |p: (&u8, &mut u8)| (*p.0, *p.1);
            let (first, last) = (a.first(), a.last());
            ck!(first_len!(c.$iter(), kv) == (a.n, first) && first_len!(c.$iter_mut(), kvm) == (a.n, first), "[C14.accessor] *_iter / *_iter_mut hand out that list's most-recent-first iterator");
            ck!(first_len!(c.$iter_lru(), kv) == (a.n, last) && first_len!(c.$iter_lru_mut(), kvm) == (a.n, last), "[C14.accessor] *_iter_lru / *_iter_lru_mut hand out that list's least-recent-first iterator");
            ck!(first_len!(c.$keys(), |x: &u8| *x) == (a.n, first.map(|p| p.0)) && first_len!(c.$keys_lru(), |x: &u8| *x) == (a.n, last.map(|p| p.0)), "[C14.accessor] *_keys / *_keys_lru hand out that list's key iterators");
            ck!(first_len!(c.$values(), |x: &u8| *x) == (a.n, first.map(|p| p.1)) && first_len!(c.$values_lru(), |x: &u8| *x) == (a.n, last.map(|p| p.1))
                && first_len!(c.$values_mut(), |x: &mut u8| *x) == (a.n, first.map(|p| p.1)) && first_len!(c.$values_lru_mut(), |x: &mut u8| *x) == (a.n, last.map(|p| p.1)),
                "[C14.accessor] *_values(_lru)(_mut) hand out that list's value iterators");
            let (post, wf) = c.verif_check();
            ck!(wf && post == pre, "[C13.readonly][C14.readonly] creating the per-list iterators changes nothing");
            c.verif_forget();
        }
    };
}
arc_list_accessors!(arc_iter_recent, recent, recent_iter, recent_iter_lru, recent_iter_mut, recent_iter_lru_mut, recent_keys, recent_keys_lru,
    recent_values, recent_values_lru, recent_values_mut, recent_values_lru_mut);
arc_list_accessors!(arc_iter_frequent, frequent, frequent_iter, frequent_iter_lru, frequent_iter_mut, frequent_iter_lru_mut, frequent_keys, frequent_keys_lru,
    frequent_values, frequent_values_lru, frequent_values_mut, frequent_values_lru_mut);
arc_list_accessors!(arc_iter_recent_evict, recent_evict, recent_evict_iter, recent_evict_iter_lru, recent_evict_iter_mut, recent_evict_iter_lru_mut, recent_evict_keys, recent_evict_keys_lru,
    recent_evict_values, recent_evict_values_lru, recent_evict_values_mut, recent_evict_values_lru_mut);
arc_list_accessors!(arc_iter_frequent_evict, frequent_evict, frequent_evict_iter, frequent_evict_iter_lru, frequent_evict_iter_mut, frequent_evict_iter_lru_mut, frequent_evict_keys, frequent_evict_keys_lru,
    frequent_evict_values, frequent_evict_values_lru, frequent_evict_values_mut, frequent_evict_values_lru_mut);

#[kani::proof]
#[kani::unwind(6)]
fn arc_builder_sound() {
    let (c, a) = any_arc();
    kani::cover!(a.recent.n + a.frequent.n == a.size && a.recent_evict.n == a.size && a.frequent_evict.n == a.size, "arc builder: everything full");
    kani::cover!(a.size == 1, "arc builder: size 1");
    let (b, wf) = c.verif_check();
    ck!(wf && b == a, "[C03.builder] every AdaptiveCache state the builder produces is well formed with exactly the intended view");
    c.verif_forget();
}

#[kani::proof]
#[kani::unwind(8)]
fn arc_drop() {
    let (c, a) = any_arc();
    kani::cover!(a.recent.n > 0 && a.frequent_evict.n > 0, "arc drop: populated");
    drop(c);
}

// kind: proved (size ranges over all usize)
#[kani::proof]
#[kani::unwind(6)]
fn arc_builder_finalize_contract() {
    let size: usize = kani::any();
    kani::cover!(size == 0, "arc ctor: zero");
    kani::cover!(size == usize::MAX, "arc ctor: usize::MAX");
    let b = AdaptiveCacheBuilder { size, recent_hasher: Some(PoisonHasher), recent_evict_hasher: Some(PoisonHasher), freq_hasher: Some(PoisonHasher), freq_evict_hasher: Some(PoisonHasher) };
    let r: Result<Arc4, CacheError> = b.finalize();
    match r {
        Err(e) => ck!(size == 0 && e == CacheError::InvalidSize(0), "[C05.ctor] Err(InvalidSize(0)) exactly for size 0"),
        Ok(c) => {
            let (a, wf) = c.verif_check();
            ck!(size != 0 && wf && a.size == size && a.p == 0, "[C05.ctor][C09.p] a fresh ARC cache has the requested size and p = 0");
            ck!(a.recent == Abs::empty(size) && a.frequent == Abs::empty(size) && a.recent_evict == Abs::empty(size) && a.frequent_evict == Abs::empty(size),
                "[C05.ctor][C03.wf][C01.cap] all four lists are empty with capacity `size`");
            c.verif_forget();
        }
    }
}


// ------------------------------------------------------------------ ownership conservation (C04), unit K-LEAK

// tier: thorough (dropping whole composite caches with tracked payloads is expensive for CBMC)
#[kani::proof]
#[kani::unwind(14)]
fn arc_put_leakcheck() {
    use crate::verif_hooks::gen::*;
    let size: usize = kani::any();
    let p: usize = kani::any();
    kani::assume(size >= 1 && size <= N && p <= size);
    let t1 = any_tracked_abs(N, 1);
    let t2 = any_tracked_abs(N, 1);
    let b1 = any_tracked_abs(N, 1);
    let b2 = any_tracked_abs(N, 1);
    kani::assume(t1.cap == size && t2.cap == size && b1.cap == size && b2.cap == size && t1.n + t2.n <= size);
    kani::assume(partitioned(&[&t1, &t2, &b1, &b2]) && values_distinct(&[&t1, &t2, &b1, &b2]));
    reset_drops();
    let mut c = AdaptiveCache::verif_from_parts(size, p, build_tracked(&t1, PoisonHasher), build_tracked(&b1, PoisonHasher), build_tracked(&t2, PoisonHasher), build_tracked(&b2, PoisonHasher));
    let k: u8 = kani::any();
    let v: u8 = kani::any();
    kani::assume(k < 6 && v >= 6 && v < 12);
    let before = ids_of(&[&t1, &t2, &b1, &b2]);
    kani::assume(before & (1 << v) == 0);
    let hit = holders(&[&t1, &t2, &b1, &b2], k) > 0;
    kani::cover!(!hit && t1.n + t2.n == size && b2.n == size && t2.n > 0, "arc tracked put: new key while the frequent ghost list is full");
    kani::cover!(b1.has(k) && t1.n + t2.n == size, "arc tracked put: ghost hit in a full cache");
    let created = before | (1 << v) | if hit { 0 } else { 1 << k };
    let r = c.put(Tk(k), Tv(v));
    drop(r);
    if hit {
        ck!(drops(k) == 1, "[C04.once] on an update or revival the surplus key object is dropped exactly once");
        set_drops(k, 0);
    }
    let (post, wf) = c.verif_check();
    ck!(wf, "[C03.wf] lists well formed after put with heap-tracked payloads");
    ck!(conserved(created, ids_of(&[&post.recent, &post.frequent, &post.recent_evict, &post.frequent_evict])), "[C04.once] after put every key and value is retained (resident or ghost), or was handed back, or was dropped exactly once (trimmed ghosts included)");
    drop(c);
    ck!(conserved(created, 0), "[C04.drop] dropping the cache releases every retained key and value exactly once");
}

// ------------------------------------------------------------------ ownership with heap-owning values (C04), cheap variant
// (see harness_segmented.rs: V = Box<u8>, double drops / use after free are CBMC failures by themselves)
type ArcB = AdaptiveCache<u8, alloc::boxed::Box<u8>, PoisonHasher, PoisonHasher, PoisonHasher, PoisonHasher>;

#[kani::proof]
#[kani::unwind(6)]
fn arc_put_boxed_values() {
    let size: usize = kani::any();
    let p: usize = kani::any();
    kani::assume(size >= 1 && size <= N && p <= size);
    let t1 = any_abs(N, 1);
    let t2 = any_abs(N, 1);
    let b1 = any_abs(N, 1);
    let b2 = any_abs(N, 1);
    kani::assume(t1.cap == size && t2.cap == size && b1.cap == size && b2.cap == size && t1.n + t2.n <= size);
    kani::assume(partitioned(&[&t1, &t2, &b1, &b2]));
    let mk = |a: &Abs| RawLRU::<u8, alloc::boxed::Box<u8>, DefaultEvictCallback, PoisonHasher>::verif_from_parts(a.cap, PoisonHasher, None, a.n, |i| (a.k[i], alloc::boxed::Box::new(a.v[i])));
    let mut c: ArcB = AdaptiveCache::verif_from_parts(size, p, mk(&t1), mk(&b1), mk(&t2), mk(&b2));
    let k: u8 = kani::any();
    let v: u8 = kani::any();
    kani::cover!(b1.has(k) && t1.n + t2.n == size, "arc boxed put: ghost hit in a full cache");
    kani::cover!(holders(&[&t1, &t2, &b1, &b2], k) == 0 && t1.n + t2.n == size && b2.n == size, "arc boxed put: new key while the frequent ghost list is full");
    let r = c.put(k, alloc::boxed::Box::new(v));
    let back = match &r {
        PutResult::Put => None,
        PutResult::Update(o) => Some(**o),
        PutResult::Evicted { value, .. } => Some(**value),
        PutResult::EvictedAndUpdate { update, .. } => Some(**update),
    };
    if let Some(x) = lookup(&[&t1, &t2, &b1, &b2], k) {
        ck!(back == Some(x), "[C04.handback][C12.result] the old value handed back by an update or revival is the stored one, still alive");
    }
    drop(r);
    let (post, wf) = c.verif_check();
    ck!(wf, "[C03.wf] lists well formed with heap-owning values");
    ck!(lookup(&[&post.recent, &post.frequent], k) == Some(v), "[C04.alive][C02.value] the stored value is alive and is the one just put");
    c.verif_forget();
}
