// K-PR: PutResult is structural (C12, last sentence). Loop-free, fully symbolic payloads.
// Non-blocking check: Kani's `assert!` assumes its condition afterwards, so the first failing conjunct of a contract
// would hide every later one on the same path (and with it the verdicts of the other properties that harness serves).
// `ck!` performs the check on a nondeterministically chosen side branch, so every conjunct is reported independently.
macro_rules! ck {
    ($c:expr, $m:literal) => {
        if kani::any::<bool>() {
            assert!($c, $m);
        }
    };
    ($c:expr) => {
        assert!($c)
    };
}

use crate::PutResult;

fn any_pr() -> PutResult<u8, u16> {
    let tag: u8 = kani::any();
    match tag & 3 {
        0 => PutResult::Put,
        1 => PutResult::Update(kani::any()),
        2 => PutResult::Evicted { key: kani::any(), value: kani::any() },
        _ => PutResult::EvictedAndUpdate { evicted: (kani::any(), kani::any()), update: kani::any() },
    }
}

fn structural_eq(a: &PutResult<u8, u16>, b: &PutResult<u8, u16>) -> bool {
    match (a, b) {
        (PutResult::Put, PutResult::Put) => true,
        (PutResult::Update(x), PutResult::Update(y)) => x == y,
        (PutResult::Evicted { key: k1, value: v1 }, PutResult::Evicted { key: k2, value: v2 }) => k1 == k2 && v1 == v2,
        (
            PutResult::EvictedAndUpdate { evicted: e1, update: u1 },
            PutResult::EvictedAndUpdate { evicted: e2, update: u2 },
        ) => e1.0 == e2.0 && e1.1 == e2.1 && u1 == u2,
        _ => false,
    }
}

// kind: proved (loop-free, full domain of the instantiation)
#[kani::proof]
fn pr_eq_is_structural() {
    let a = any_pr();
    let b = any_pr();
    kani::cover!(a == b, "equal pair reachable");
    kani::cover!(a != b, "unequal pair reachable");
    ck!((a == b) == structural_eq(&a, &b), "[C12.structural] PartialEq is structural equality");
    ck!((a != b) == !structural_eq(&a, &b), "[C12.structural] ne is the negation of eq");
}

// kind: proved (loop-free, full domain of the instantiation)
#[kani::proof]
fn pr_clone_copy_preserve() {
    let a = any_pr();
    let c = a.clone();
    let d = a; // Copy
    ck!(structural_eq(&a, &c), "[C12.structural] Clone preserves variant and payloads");
    ck!(structural_eq(&a, &d), "[C12.structural] Copy preserves variant and payloads");
    ck!(a == c && c == d, "[C12.structural] clones compare equal");
}
