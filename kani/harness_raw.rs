// K-RAW: contract harnesses for RawLRU (DESIGN.md 4.1).  Each harness is the unfolding of a function
// contract: take an ARBITRARY state satisfying the representation invariant (not a scripted history),
// assume the precondition, call the real function, assert invariant + postcondition.  Every conjunct
// is its own assertion whose message starts with the property tags it serves.
// Non-blocking check: Kani's `assert!` assumes its condition afterwards, so the first failing conjunct of a contract
// would hide every later one on the same path (and with it the verdicts of the other properties that harness serves).
// `ck!` performs the check on a nondeterministically chosen side branch, so every conjunct is reported independently.
macro_rules! ck {
    ($c:expr, $m:literal) => {
        if kani::any::<bool>() {
            assert!($c, $m);
        }
    };
    ($c:expr) => {
        assert!($c)
    };
}

use super::*;
use crate::verif_hooks::spec::*;
use crate::verif_hooks::PoisonHasher;
use crate::{Cache, DefaultEvictCallback, PutResult, ResizableCache};

pub use crate::verif_hooks::gen::{any_abs, build, N};

pub type Lru = RawLRU<u8, u8, DefaultEvictCallback, PoisonHasher>;

/// arbitrary well-formed RawLRU together with its abstract view.  That the builder produces a
/// well-formed list with exactly the intended view is checked once, for all views, by `builder_sound`
/// (so a wrong builder cannot silently shrink the state space).
pub fn any_lru(maxcap: usize, mincap: usize) -> (Lru, Abs) {
    let a = any_abs(maxcap, mincap);
    let l: Lru = build(&a, PoisonHasher, None);
    (l, a)
}

#[kani::proof]
#[kani::unwind(6)]
fn builder_sound() {
    let a = any_abs(NMAX, 0);
    kani::cover!(a.n == NMAX, "builder: full-length list");
    kani::cover!(a.n == 0 && a.cap == 0, "builder: capacity 0");
    let l: Lru = build(&a, PoisonHasher, None);
    let (b, wf) = l.verif_check();
    ck!(wf, "[C03.builder] every state the builder produces satisfies the representation invariant");
    ck!(b == a, "[C03.builder] every state the builder produces has exactly the intended view");
    core::mem::forget(l);
}

macro_rules! inv {
    ($l:expr, $wf:expr, $post:expr) => {
        ck!($wf, "[C03.wf] list is a well-formed chain between its sentinels matching its index");
        ck!($post.n <= $post.cap, "[C01.cap] resident count within capacity");
        ck!($l.len() == $post.n, "[C01.len] len() equals the number of linked entries");
        ck!($l.is_empty() == ($post.n == 0), "[C01.empty] is_empty() iff nothing retained");
    };
}

// ------------------------------------------------------------------ put

#[kani::proof]
#[kani::unwind(6)]
fn put() {
    let (mut l, pre) = any_lru(N, 0);
    let k: u8 = kani::any();
    let v: u8 = kani::any();
    kani::cover!(pre.has(k), "put: update case");
    kani::cover!(!pre.has(k) && pre.n < pre.cap, "put: room case");
    kani::cover!(!pre.has(k) && pre.n == pre.cap && pre.cap > 0, "put: eviction case");
    kani::cover!(pre.cap == 0, "put: capacity 0 case");
    let r = l.put(k, v);
    let (post, wf) = l.verif_check();
    let (exp, exp_r) = spec_lru_put(&pre, k, v);
    inv!(l, wf, post);
    ck!(pr_of(&r) == exp_r, "[C12.result][C06.victim] put reports Put/Update(old)/Evicted(true LRU) truthfully");
    ck!(post.same_map(&exp), "[C02.map][C12.delta] retained map changed by exactly +k, -reported entry");
    ck!(pre.cap == 0 || post.val_of(k) == Some(v), "[C02.value][C12.resident] after put(k,v) k is resident with v");
    ck!(post.view_eq(&exp), "[C06.order] put moves k to the front and keeps the order of the rest");
    ck!(post.cap == pre.cap, "[C01.cap] capacity unchanged by put");
    core::mem::forget(l);
}

// ------------------------------------------------------------------ lookups that count as a use

#[kani::proof]
#[kani::unwind(6)]
fn get() {
    let (mut l, pre) = any_lru(N, 0);
    let k: u8 = kani::any();
    kani::cover!(pre.has(k), "get: hit");
    kani::cover!(!pre.has(k), "get: miss");
    let r = l.get(&k).copied();
    let (post, wf) = l.verif_check();
    inv!(l, wf, post);
    ck!(r == pre.val_of(k), "[C02.lookup] get returns exactly the stored value, None iff absent");
    let exp = match pre.pos(k) {
        Some(i) => pre.touch(i, None),
        None => pre,
    };
    ck!(post.same_map(&exp), "[C02.map] get does not change the key->value map");
    ck!(post.view_eq(&exp), "[C06.order] get moves the hit entry to the front, keeps the rest");
    core::mem::forget(l);
}

#[kani::proof]
#[kani::unwind(6)]
fn get_mut() {
    let (mut l, pre) = any_lru(N, 0);
    let k: u8 = kani::any();
    let w: u8 = kani::any();
    kani::cover!(pre.has(k), "get_mut: hit");
    kani::cover!(!pre.has(k), "get_mut: miss");
    let r = match l.get_mut(&k) {
        Some(v) => {
            let old = *v;
            *v = w;
            Some(old)
        }
        None => None,
    };
    let (post, wf) = l.verif_check();
    inv!(l, wf, post);
    ck!(r == pre.val_of(k), "[C02.lookup] get_mut hands out the stored value, None iff absent");
    let exp = match pre.pos(k) {
        Some(i) => pre.touch(i, Some(w)),
        None => pre,
    };
    ck!(post.same_map(&exp), "[C02.write] a write through get_mut lands in that entry and nowhere else");
    ck!(post.view_eq(&exp), "[C06.order] get_mut moves the hit entry to the front, keeps the rest");
    core::mem::forget(l);
}

// ------------------------------------------------------------------ read-only operations

#[kani::proof]
#[kani::unwind(6)]
fn peek_contains() {
    let (l, pre) = any_lru(N, 0);
    let k: u8 = kani::any();
    kani::cover!(pre.has(k), "peek: hit");
    kani::cover!(!pre.has(k), "peek: miss");
    let r = l.peek(&k).copied();
    let c = l.contains(&k);
    let r2 = l.peek_(&k).copied();
    let (post, wf) = l.verif_check();
    inv!(l, wf, post);
    ck!(r == pre.val_of(k) && r2 == r, "[C02.lookup] peek returns exactly the stored value, None iff absent");
    ck!(c == pre.has(k), "[C02.lookup] contains agrees with residency");
    ck!(post == pre, "[C13.readonly][C06.nouse] peek/contains leave the view (order, values, cap) unchanged");
    ck!(l.cap() == pre.cap && l.len() == pre.n, "[C13.readonly] len/cap are pure");
    core::mem::forget(l);
}

#[kani::proof]
#[kani::unwind(6)]
fn peek_mut() {
    let (mut l, pre) = any_lru(N, 0);
    let k: u8 = kani::any();
    let w: Option<u8> = kani::any();
    kani::cover!(pre.has(k) && w.is_some(), "peek_mut: hit and write");
    kani::cover!(pre.has(k) && w.is_none(), "peek_mut: hit, no write");
    let r = match l.peek_mut(&k) {
        Some(v) => {
            let old = *v;
            if let Some(w) = w {
                *v = w;
            }
            Some(old)
        }
        None => None,
    };
    let r2 = l.peek_mut_(&k).map(|v| *v);
    let (post, wf) = l.verif_check();
    inv!(l, wf, post);
    ck!(r == pre.val_of(k), "[C02.lookup] peek_mut hands out the stored value, None iff absent");
    let exp = match (pre.pos(k), w) {
        (Some(i), Some(w)) => pre.with_val(i, w),
        _ => pre,
    };
    ck!(r2 == exp.val_of(k), "[C02.write] value written through peek_mut is what later reads return");
    ck!(post == exp, "[C13.readonly][C06.nouse][C02.write] peek_mut changes nothing but the written value");
    core::mem::forget(l);
}

// ------------------------------------------------------------------ remove

#[kani::proof]
#[kani::unwind(6)]
fn remove() {
    let (mut l, pre) = any_lru(N, 0);
    let k: u8 = kani::any();
    kani::cover!(pre.has(k), "remove: hit");
    kani::cover!(!pre.has(k), "remove: miss");
    let r = l.remove(&k);
    let (post, wf) = l.verif_check();
    inv!(l, wf, post);
    ck!(r == pre.val_of(k), "[C02.remove] remove hands back the stored value, None iff absent");
    let exp = match pre.pos(k) {
        Some(i) => pre.remove_at(i),
        None => pre,
    };
    ck!(!post.has(k), "[C02.absent] a removed key is no longer resident");
    ck!(post.same_map(&exp), "[C02.map] remove takes out exactly that entry");
    ck!(post.view_eq(&exp), "[C06.order] remove keeps the order of the remaining entries");
    ck!(!l.contains(&k) && l.peek(&k).is_none(), "[C02.absent] lookups agree the key is gone");
    core::mem::forget(l);
}

// ------------------------------------------------------------------ LRU / MRU accessors

#[kani::proof]
#[kani::unwind(6)]
fn get_lru_variants() {
    let (mut l, pre) = any_lru(N, 0);
    let w: u8 = kani::any();
    let mutable: bool = kani::any();
    kani::cover!(pre.n == 0, "get_lru: empty");
    kani::cover!(pre.n >= 2 && mutable, "get_lru_mut: several entries");
    kani::cover!(pre.n >= 2 && !mutable, "get_lru: several entries");
    let r = if mutable {
        l.get_lru_mut().map(|(k, v)| {
            let o = (*k, *v);
            *v = w;
            o
        })
    } else {
        l.get_lru().map(|(k, v)| (*k, *v))
    };
    let (post, wf) = l.verif_check();
    inv!(l, wf, post);
    ck!(r == pre.last(), "[C06.lru] get_lru/get_lru_mut name the least recently used entry");
    let exp = if pre.n == 0 { pre } else { pre.touch(pre.n - 1, if mutable { Some(w) } else { None }) };
    ck!(post.view_eq(&exp), "[C06.order][C02.write] get_lru(_mut) is a use: entry moves to the front, write lands in it");
    core::mem::forget(l);
}

#[kani::proof]
#[kani::unwind(6)]
fn mru_lru_peeks() {
    let (mut l, pre) = any_lru(N, 0);
    kani::cover!(pre.n == 0, "peeks: empty");
    kani::cover!(pre.n == 1, "peeks: single entry");
    kani::cover!(pre.n >= 2, "peeks: several entries");
    let a = l.peek_lru().map(|(k, v)| (*k, *v));
    let b = l.peek_mru().map(|(k, v)| (*k, *v));
    let c = l.get_mru().map(|(k, v)| (*k, *v));
    let d = l.peek_lru_mut().map(|(k, v)| (*k, *v));
    let e = l.peek_mru_mut().map(|(k, v)| (*k, *v));
    let f = l.get_mru_mut().map(|(k, v)| (*k, *v));
    let (post, wf) = l.verif_check();
    inv!(l, wf, post);
    ck!(a == pre.last() && d == pre.last(), "[C06.lru] peek_lru(_mut) name the least recently used entry");
    ck!(b == pre.first() && c == pre.first() && e == pre.first() && f == pre.first(),
        "[C06.mru] peek_mru(_mut)/get_mru(_mut) name the most recently used entry");
    ck!(post == pre, "[C13.readonly][C06.nouse] peek_lru/peek_mru/get_mru variants leave the view unchanged");
    core::mem::forget(l);
}

#[kani::proof]
#[kani::unwind(6)]
fn mru_lru_mut_writes() {
    let (mut l, pre) = any_lru(N, 0);
    kani::assume(pre.n >= 1);
    let w: u8 = kani::any();
    let which: u8 = kani::any();
    kani::assume(which < 3);
    kani::cover!(pre.n >= 2 && which == 0, "peek_lru_mut write");
    kani::cover!(pre.n >= 2 && which == 1, "peek_mru_mut write");
    kani::cover!(pre.n >= 2 && which == 2, "get_mru_mut write");
    let at = match which {
        0 => { *l.peek_lru_mut().unwrap().1 = w; pre.n - 1 }
        1 => { *l.peek_mru_mut().unwrap().1 = w; 0 }
        _ => { *l.get_mru_mut().unwrap().1 = w; 0 }
    };
    let (post, wf) = l.verif_check();
    inv!(l, wf, post);
    ck!(post == pre.with_val(at, w), "[C02.write][C06.nouse] write through peek_lru_mut/peek_mru_mut/get_mru_mut lands in that entry, order unchanged");
    core::mem::forget(l);
}

// ------------------------------------------------------------------ *_or_put

#[kani::proof]
#[kani::unwind(6)]
fn or_put_variants() {
    let (mut l, pre) = any_lru(N, 0);
    let k: u8 = kani::any();
    let v: u8 = kani::any();
    let which: u8 = kani::any();
    kani::assume(which < 3);
    kani::cover!(pre.has(k) && which == 0, "peek_or_put: present");
    kani::cover!(!pre.has(k) && which == 0 && pre.n == pre.cap && pre.cap > 0, "peek_or_put: absent and full");
    kani::cover!(pre.has(k) && which == 1, "peek_mut_or_put: present");
    kani::cover!(!pre.has(k) && which == 1, "peek_mut_or_put: absent");
    kani::cover!(pre.has(k) && which == 2, "contains_or_put: present");
    kani::cover!(!pre.has(k) && which == 2, "contains_or_put: absent");
    let (seen, r): (Option<u8>, Option<PR>) = match which {
        0 => { let (a, b) = l.peek_or_put(k, v); (a.copied(), b.map(|x| pr_of(&x))) }
        1 => { let (a, b) = l.peek_mut_or_put(k, v); (a.map(|x| *x), b.map(|x| pr_of(&x))) }
        _ => { let (a, b) = l.contains_or_put(k, v); (if a { pre.val_of(k) } else { None }, b.map(|x| pr_of(&x))) }
    };
    let (post, wf) = l.verif_check();
    inv!(l, wf, post);
    if pre.has(k) {
        ck!(seen == pre.val_of(k) && r.is_none(), "[C02.lookup][C12.result] *_or_put on a present key peeks: stored value, no PutResult");
        ck!(post == pre, "[C13.readonly][C06.nouse] *_or_put on a present key leaves the view unchanged");
    } else {
        let (exp, exp_r) = spec_lru_put(&pre, k, v);
        ck!(seen.is_none() && r == Some(exp_r), "[C12.result][C06.victim] *_or_put on an absent key reports exactly what put reports");
        ck!(post.same_map(&exp), "[C02.map][C12.delta] *_or_put on an absent key changes the map exactly as put does");
        ck!(post.view_eq(&exp), "[C06.order] *_or_put on an absent key is exactly put");
    }
    core::mem::forget(l);
}

// ------------------------------------------------------------------ remove_lru / purge / resize

#[kani::proof]
#[kani::unwind(6)]
fn remove_lru() {
    let (mut l, pre) = any_lru(N, 0);
    kani::cover!(pre.n == 0, "remove_lru: empty");
    kani::cover!(pre.n == 1, "remove_lru: last entry");
    kani::cover!(pre.n >= 2, "remove_lru: several entries");
    let r = l.remove_lru();
    let (post, wf) = l.verif_check();
    inv!(l, wf, post);
    ck!(r == pre.last(), "[C06.lru][C02.remove] remove_lru returns the least recently used pair, None iff empty");
    let exp = if pre.n == 0 { pre } else { pre.drop_last() };
    ck!(post.view_eq(&exp), "[C06.order][C02.map] remove_lru takes out exactly the last entry");
    core::mem::forget(l);
}

#[kani::proof]
#[kani::unwind(6)]
fn purge() {
    let (mut l, pre) = any_lru(N, 0);
    kani::cover!(pre.n >= 2, "purge: several entries");
    kani::cover!(pre.n == 0, "purge: empty");
    l.purge();
    let (post, wf) = l.verif_check();
    inv!(l, wf, post);
    ck!(post == Abs::empty(pre.cap), "[C06.purge][C02.absent][C01.cap] purge leaves an empty cache with the same capacity");
    let j: u8 = kani::any();
    ck!(!l.contains(&j), "[C02.absent] nothing is resident after purge");
    core::mem::forget(l);
}

#[kani::proof]
#[kani::unwind(6)]
fn resize() {
    let (mut l, pre) = any_lru(N, 0);
    let c: usize = kani::any();
    kani::assume(c <= N + 1);
    kani::cover!(c < pre.n && c > 0, "resize: shrink below length");
    kani::cover!(c == 0 && pre.n > 0, "resize: to zero");
    kani::cover!(c > pre.cap, "resize: grow");
    kani::cover!(c == pre.cap, "resize: same capacity");
    let r = l.resize(c);
    let (post, wf) = l.verif_check();
    inv!(l, wf, post);
    let dropped = if pre.n > c { pre.n - c } else { 0 };
    ck!(r == dropped as u64, "[C06.resize] resize returns max(0, len - n)");
    ck!(post.view_eq(&pre.truncate(c).with_cap(c)), "[C06.resize][C06.order][C01.cap] resize keeps the most recent min(len, n) entries in order and sets the capacity");
    ck!(l.cap() == c, "[C06.resize][C01.cap] the new capacity is enforced from then on");
    core::mem::forget(l);
}

#[kani::proof]
#[kani::unwind(6)]
fn resize_then_put() {
    // two-step contract composition for the capacity-0 corner the statement of C12 singles out
    let (mut l, pre) = any_lru(N, 1);
    let c: usize = kani::any();
    kani::assume(c <= N);
    let k: u8 = kani::any();
    let v: u8 = kani::any();
    kani::cover!(c == 0, "resize(0) then put");
    kani::cover!(c > 0 && c < pre.n, "shrink then put");
    l.resize(c);
    let mid = l.verif_abs();
    let r = l.put(k, v);
    let (post, wf) = l.verif_check();
    inv!(l, wf, post);
    let (exp, exp_r) = spec_lru_put(&mid, k, v);
    ck!(pr_of(&r) == exp_r, "[C12.result][C12.cap0] put after resize reports truthfully (capacity 0 hands the pair back as Evicted)");
    ck!(post.view_eq(&exp), "[C06.order][C06.resize] the resized capacity is enforced by the next put");
    core::mem::forget(l);
}

// ------------------------------------------------------------------ constructors (full domain)

// kind: proved (loop-free up to the empty drain in Drop; cap ranges over all usize)
#[kani::proof]
#[kani::unwind(6)]
fn ctor_with_hasher() {
    let cap: usize = kani::any();
    kani::cover!(cap == 0, "ctor: zero");
    kani::cover!(cap == usize::MAX, "ctor: usize::MAX");
    match RawLRU::<u8, u8, DefaultEvictCallback, PoisonHasher>::with_hasher(cap, PoisonHasher) {
        Ok(l) => {
            ck!(cap != 0, "[C05.ctor] zero capacity is rejected");
            let a = l.verif_abs();
            ck!(l.verif_wf() && a == Abs::empty(cap), "[C05.ctor][C03.wf][C01.cap] a fresh cache is empty, well formed, with the requested capacity");
            ck!(l.cap() == cap && l.len() == 0 && l.is_empty(), "[C01.len] fresh cache reports cap, len 0, empty");
        }
        Err(e) => {
            ck!(cap == 0 && e == CacheError::InvalidSize(0), "[C05.ctor] Err(InvalidSize(0)) exactly for capacity 0");
        }
    }
}

#[derive(Clone, Copy)]
pub struct NopCb;
impl OnEvictCallback for NopCb {
    fn on_evict<K, V>(&self, _: &K, _: &V) {}
}

// kind: proved (cap ranges over all usize)
#[kani::proof]
#[kani::unwind(6)]
fn ctor_with_cb_and_hasher() {
    let cap: usize = kani::any();
    match RawLRU::<u8, u8, NopCb, PoisonHasher>::with_on_evict_cb_and_hasher(cap, NopCb, PoisonHasher) {
        Ok(l) => {
            ck!(cap != 0, "[C05.ctor] zero capacity is rejected");
            ck!(l.verif_wf() && l.verif_abs() == Abs::empty(cap), "[C05.ctor][C03.wf] fresh cache with callback is empty and well formed");
        }
        Err(e) => {
            ck!(cap == 0 && e == CacheError::InvalidSize(0), "[C05.ctor] Err(InvalidSize(0)) exactly for capacity 0");
        }
    }
}

// ------------------------------------------------------------------ node hand-over functions used by the composite caches

fn fresh_node(k: u8, v: u8) -> NonNull<EntryNode<u8, u8>> {
    unsafe { NonNull::new_unchecked(Box::into_raw(Box::new(EntryNode::new(k, v)))) }
}

fn node_kv(n: NonNull<EntryNode<u8, u8>>) -> (u8, u8) {
    unsafe { (*(*n.as_ptr()).key.as_ptr(), *(*n.as_ptr()).val.as_ptr()) }
}

#[kani::proof]
#[kani::unwind(6)]
fn put_nonnull() {
    // requires: cap >= 1 (composites never resize their lists), node detached and allocated, key not in list
    let (mut l, pre) = any_lru(N, 1);
    let k: u8 = kani::any();
    let v: u8 = kani::any();
    kani::assume(!pre.has(k));
    kani::cover!(pre.n < pre.cap, "put_nonnull: room");
    kani::cover!(pre.n == pre.cap, "put_nonnull: full");
    let r = l.put_nonnull(fresh_node(k, v));
    let (post, wf) = l.verif_check();
    inv!(l, wf, post);
    let (exp, exp_r) = spec_lru_put(&pre, k, v);
    ck!(pr_of(&r) == exp_r, "[C12.result][C04.handover] put_nonnull frees and reports the displaced LRU entry, Put otherwise");
    ck!(post.view_eq(&exp), "[C01.cap][C03.handover] put_nonnull links the node at the front, evicting the LRU entry when full");
    core::mem::forget(l);
}

#[kani::proof]
#[kani::unwind(6)]
fn put_or_evict_nonnull() {
    let (mut l, pre) = any_lru(N, 1);
    let k: u8 = kani::any();
    let v: u8 = kani::any();
    kani::assume(!pre.has(k));
    kani::cover!(pre.n < pre.cap, "put_or_evict_nonnull: room");
    kani::cover!(pre.n == pre.cap, "put_or_evict_nonnull: full");
    let r = l.put_or_evict_nonnull(fresh_node(k, v));
    let (post, wf) = l.verif_check();
    inv!(l, wf, post);
    let (exp, exp_r) = spec_lru_put(&pre, k, v);
    match r {
        None => ck!(exp_r == PR::Put, "[C03.handover] no node is displaced while there is room"),
        Some(n) => {
            let (ek, ev) = node_kv(n);
            ck!(exp_r == PR::Evicted(ek, ev), "[C03.handover][C04.handover] the displaced node is the LRU entry, handed back intact");
            unsafe {
                ck!(!post.has(ek), "[C03.handover] the displaced node is no longer indexed");
                drop(Box::from_raw(n.as_ptr()));
            }
        }
    }
    ck!(post.view_eq(&exp), "[C01.cap][C03.handover] put_or_evict_nonnull links the node at the front");
    core::mem::forget(l);
}

#[kani::proof]
#[kani::unwind(6)]
fn remove_and_return_ent() {
    let (mut l, pre) = any_lru(N, 1);
    let k: u8 = kani::any();
    kani::cover!(pre.has(k), "remove_and_return_ent: hit");
    kani::cover!(!pre.has(k), "remove_and_return_ent: miss");
    let r = l.remove_and_return_ent(&k);
    let (post, wf) = l.verif_check();
    inv!(l, wf, post);
    match (r, pre.pos(k)) {
        (Some(n), Some(i)) => {
            ck!(node_kv(n) == (k, pre.v[i]), "[C03.handover][C02.remove] the node handed out carries the key and its stored value");
            ck!(post.view_eq(&pre.remove_at(i)), "[C03.handover] node unlinked and unindexed, rest unchanged");
            unsafe { drop(Box::from_raw(n.as_ptr())) };
        }
        (None, None) => ck!(post == pre, "[C03.handover] miss leaves the list unchanged"),
        _ => ck!(false, "[C03.handover][C02.lookup] remove_and_return_ent finds exactly the resident keys"),
    }
    core::mem::forget(l);
}

#[kani::proof]
#[kani::unwind(6)]
fn remove_lru_in() {
    let (mut l, pre) = any_lru(N, 1);
    kani::cover!(pre.n == 0, "remove_lru_in: empty");
    kani::cover!(pre.n >= 2, "remove_lru_in: several");
    let r = l.remove_lru_in();
    let (post, wf) = l.verif_check();
    inv!(l, wf, post);
    match r {
        Some(n) => {
            ck!(Some(node_kv(n)) == pre.last(), "[C03.handover][C06.lru] remove_lru_in hands out the LRU node intact");
            ck!(post.view_eq(&pre.drop_last()), "[C03.handover] LRU node unlinked and unindexed");
            unsafe { drop(Box::from_raw(n.as_ptr())) };
        }
        None => ck!(pre.n == 0 && post == pre, "[C03.handover] None iff the list is empty"),
    }
    core::mem::forget(l);
}

#[kani::proof]
#[kani::unwind(6)]
fn update_in_place() {
    let (mut l, pre) = any_lru(N, 1);
    kani::assume(pre.n >= 1);
    let i: usize = kani::any();
    kani::assume(i < pre.n);
    let mut v: u8 = kani::any();
    let v0 = v;
    let (nodes, _, _) = l.verif_nodes();
    l.update(&mut v, nodes[i]);
    let (post, wf) = l.verif_check();
    inv!(l, wf, post);
    ck!(v == pre.v[i], "[C02.value][C12.result] update swaps out the previously stored value");
    ck!(post.view_eq(&pre.touch(i, Some(v0))), "[C02.write][C06.order] update stores the new value and moves the entry to the front");
    core::mem::forget(l);
}

// ------------------------------------------------------------------ negative control: MUST fail.  If it verifies, the harness
// machinery of this unit is vacuous (contradictory assumptions, a checker that cannot see failures) and the driver
// discards the unit's results (exit 2).
// negative control
#[kani::proof]
#[kani::unwind(6)]
fn negctl_put_never_evicts() {
    let (mut l, _pre) = any_lru(N, 1);
    let k: u8 = kani::any();
    let v: u8 = kani::any();
    let r = l.put(k, v);
    ck!(!matches!(r, PutResult::Evicted { .. }), "[negctl] put never evicts (false: a full cache evicts its LRU entry)");
    core::mem::forget(l);
}
