// K-RAW: contract harnesses for RawLRU (DESIGN.md 4.1).  Each harness is the unfolding of a function
// contract: take an ARBITRARY state satisfying the representation invariant (not a scripted history),
// assume the precondition, call the real function, assert invariant + postcondition.  Every conjunct
// is its own assertion whose message starts with the property tags it serves.
use super::*;
use crate::verif_hooks::spec::*;
use crate::verif_hooks::PoisonHasher;
use crate::{Cache, DefaultEvictCallback, PutResult, ResizableCache};

/// list-length / capacity bound of this build (quick: 2, thorough: 3); iterators use NMAX
pub const N: usize = match option_env!("VERIF_N") {
    Some(s) => (s.as_bytes()[0] - b'0') as usize,
    None => 2,
};

pub type Lru = RawLRU<u8, u8, DefaultEvictCallback, PoisonHasher>;

/// arbitrary abstract list state: cap in 0..=maxcap (0 only with n = 0: reachable through resize(0)),
/// n <= cap, keys pairwise distinct, values unconstrained
pub fn any_abs(maxcap: usize, mincap: usize) -> Abs {
    let cap: usize = kani::any();
    let n: usize = kani::any();
    kani::assume(cap >= mincap && cap <= maxcap && n <= cap && n <= NMAX);
    let a = Abs { cap, n, k: kani::any(), v: kani::any(), complete: true }.canon();
    kani::assume(a.distinct());
    a
}

pub fn build<S: BuildHasher, E: OnEvictCallback>(a: &Abs, hasher: S, cb: Option<E>) -> RawLRU<u8, u8, E, S> {
    RawLRU::verif_from_parts(a.cap, hasher, cb, a.n, |i| (a.k[i], a.v[i]))
}

/// arbitrary well-formed RawLRU together with its abstract view; the builder's output is itself
/// checked so that a wrong builder cannot silently shrink the state space
pub fn any_lru(maxcap: usize, mincap: usize) -> (Lru, Abs) {
    let a = any_abs(maxcap, mincap);
    let l: Lru = build(&a, PoisonHasher, None);
    assert!(l.verif_wf(), "[builder] built state is well formed");
    assert!(l.verif_abs() == a, "[builder] built state has the intended view");
    (l, a)
}

macro_rules! inv {
    ($l:expr, $post:expr) => {
        assert!($l.verif_wf(), "[C03.wf] list is a well-formed chain between its sentinels matching its index");
        assert!($post.n <= $post.cap, "[C01.cap] resident count within capacity");
        assert!($l.len() == $post.n, "[C01.len] len() equals the number of linked entries");
        assert!($l.is_empty() == ($post.n == 0), "[C01.empty] is_empty() iff nothing retained");
    };
}

// ------------------------------------------------------------------ put

#[kani::proof]
#[kani::unwind(6)]
fn put() {
    let (mut l, pre) = any_lru(N, 0);
    let k: u8 = kani::any();
    let v: u8 = kani::any();
    kani::cover!(pre.has(k), "put: update case");
    kani::cover!(!pre.has(k) && pre.n < pre.cap, "put: room case");
    kani::cover!(!pre.has(k) && pre.n == pre.cap && pre.cap > 0, "put: eviction case");
    kani::cover!(pre.cap == 0, "put: capacity 0 case");
    let r = l.put(k, v);
    let post = l.verif_abs();
    let (exp, exp_r) = spec_lru_put(&pre, k, v);
    inv!(l, post);
    assert!(pr_of(&r) == exp_r, "[C12.result][C06.victim] put reports Put/Update(old)/Evicted(true LRU) truthfully");
    assert!(post.same_map(&exp), "[C02.map][C12.delta] retained map changed by exactly +k, -reported entry");
    assert!(pre.cap == 0 || post.val_of(k) == Some(v), "[C02.value][C12.resident] after put(k,v) k is resident with v");
    assert!(post.view_eq(&exp), "[C06.order] put moves k to the front and keeps the order of the rest");
    assert!(post.cap == pre.cap, "[C01.cap] capacity unchanged by put");
    core::mem::forget(l);
}

// ------------------------------------------------------------------ lookups that count as a use

#[kani::proof]
#[kani::unwind(6)]
fn get() {
    let (mut l, pre) = any_lru(N, 0);
    let k: u8 = kani::any();
    kani::cover!(pre.has(k), "get: hit");
    kani::cover!(!pre.has(k), "get: miss");
    let r = l.get(&k).copied();
    let post = l.verif_abs();
    inv!(l, post);
    assert!(r == pre.val_of(k), "[C02.lookup] get returns exactly the stored value, None iff absent");
    let exp = match pre.pos(k) {
        Some(i) => pre.touch(i, None),
        None => pre,
    };
    assert!(post.same_map(&exp), "[C02.map] get does not change the key->value map");
    assert!(post.view_eq(&exp), "[C06.order] get moves the hit entry to the front, keeps the rest");
    core::mem::forget(l);
}

#[kani::proof]
#[kani::unwind(6)]
fn get_mut() {
    let (mut l, pre) = any_lru(N, 0);
    let k: u8 = kani::any();
    let w: u8 = kani::any();
    kani::cover!(pre.has(k), "get_mut: hit");
    kani::cover!(!pre.has(k), "get_mut: miss");
    let r = match l.get_mut(&k) {
        Some(v) => {
            let old = *v;
            *v = w;
            Some(old)
        }
        None => None,
    };
    let post = l.verif_abs();
    inv!(l, post);
    assert!(r == pre.val_of(k), "[C02.lookup] get_mut hands out the stored value, None iff absent");
    let exp = match pre.pos(k) {
        Some(i) => pre.touch(i, Some(w)),
        None => pre,
    };
    assert!(post.same_map(&exp), "[C02.write] a write through get_mut lands in that entry and nowhere else");
    assert!(post.view_eq(&exp), "[C06.order] get_mut moves the hit entry to the front, keeps the rest");
    core::mem::forget(l);
}

// ------------------------------------------------------------------ read-only operations

#[kani::proof]
#[kani::unwind(6)]
fn peek_contains() {
    let (l, pre) = any_lru(N, 0);
    let k: u8 = kani::any();
    kani::cover!(pre.has(k), "peek: hit");
    kani::cover!(!pre.has(k), "peek: miss");
    let r = l.peek(&k).copied();
    let c = l.contains(&k);
    let r2 = l.peek_(&k).copied();
    let post = l.verif_abs();
    inv!(l, post);
    assert!(r == pre.val_of(k) && r2 == r, "[C02.lookup] peek returns exactly the stored value, None iff absent");
    assert!(c == pre.has(k), "[C02.lookup] contains agrees with residency");
    assert!(post == pre, "[C13.readonly][C06.nouse] peek/contains leave the view (order, values, cap) unchanged");
    assert!(l.cap() == pre.cap && l.len() == pre.n, "[C13.readonly] len/cap are pure");
    core::mem::forget(l);
}

#[kani::proof]
#[kani::unwind(6)]
fn peek_mut() {
    let (mut l, pre) = any_lru(N, 0);
    let k: u8 = kani::any();
    let w: Option<u8> = kani::any();
    kani::cover!(pre.has(k) && w.is_some(), "peek_mut: hit and write");
    kani::cover!(pre.has(k) && w.is_none(), "peek_mut: hit, no write");
    let r = match l.peek_mut(&k) {
        Some(v) => {
            let old = *v;
            if let Some(w) = w {
                *v = w;
            }
            Some(old)
        }
        None => None,
    };
    let r2 = l.peek_mut_(&k).map(|v| *v);
    let post = l.verif_abs();
    inv!(l, post);
    assert!(r == pre.val_of(k), "[C02.lookup] peek_mut hands out the stored value, None iff absent");
    let exp = match (pre.pos(k), w) {
        (Some(i), Some(w)) => pre.with_val(i, w),
        _ => pre,
    };
    assert!(r2 == exp.val_of(k), "[C02.write] value written through peek_mut is what later reads return");
    assert!(post == exp, "[C13.readonly][C06.nouse][C02.write] peek_mut changes nothing but the written value");
    core::mem::forget(l);
}

// ------------------------------------------------------------------ remove

#[kani::proof]
#[kani::unwind(6)]
fn remove() {
    let (mut l, pre) = any_lru(N, 0);
    let k: u8 = kani::any();
    kani::cover!(pre.has(k), "remove: hit");
    kani::cover!(!pre.has(k), "remove: miss");
    let r = l.remove(&k);
    let post = l.verif_abs();
    inv!(l, post);
    assert!(r == pre.val_of(k), "[C02.remove] remove hands back the stored value, None iff absent");
    let exp = match pre.pos(k) {
        Some(i) => pre.remove_at(i),
        None => pre,
    };
    assert!(!post.has(k), "[C02.absent] a removed key is no longer resident");
    assert!(post.same_map(&exp), "[C02.map] remove takes out exactly that entry");
    assert!(post.view_eq(&exp), "[C06.order] remove keeps the order of the remaining entries");
    assert!(!l.contains(&k) && l.peek(&k).is_none(), "[C02.absent] lookups agree the key is gone");
    core::mem::forget(l);
}
