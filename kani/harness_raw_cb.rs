// K-CB: eviction-callback contract (C15).  Ghost state = a log of (key, value) pairs appended by the
// callback; every operation's contract says how the log grows.
// Non-blocking check: Kani's `assert!` assumes its condition afterwards, so the first failing conjunct of a contract
// would hide every later one on the same path (and with it the verdicts of the other properties that harness serves).
// `ck!` performs the check on a nondeterministically chosen side branch, so every conjunct is reported independently.
macro_rules! ck {
    ($c:expr, $m:literal) => {
        if kani::any::<bool>() {
            assert!($c, $m);
        }
    };
    ($c:expr) => {
        assert!($c)
    };
}

use super::harness::{any_abs, build, N};
use super::*;
use crate::verif_hooks::spec::*;
use crate::verif_hooks::PoisonHasher;
use crate::{Cache, PutResult, ResizableCache};

pub const LOGCAP: usize = 8;
static mut LOG: [(u8, u8); LOGCAP] = [(0, 0); LOGCAP];
static mut LOGN: usize = 0;

#[derive(Clone, Copy)]
pub struct RecCb;
impl OnEvictCallback for RecCb {
    fn on_evict<K, V>(&self, key: &K, val: &V) {
        // K = V = u8 in every harness of this file
        ck!(core::mem::size_of::<K>() == 1 && core::mem::size_of::<V>() == 1);
        unsafe {
            let k = *(key as *const K as *const u8);
            let v = *(val as *const V as *const u8);
            if LOGN < LOGCAP {
                LOG[LOGN] = (k, v);
            }
            LOGN += 1;
        }
    }
}

type CbLru = RawLRU<u8, u8, RecCb, PoisonHasher>;

fn any_cb_lru() -> (CbLru, Abs) {
    let a = any_abs(N, 0);
    unsafe { LOGN = 0 };
    let l: CbLru = build(&a, PoisonHasher, Some(RecCb));
    (l, a)
}

fn logn() -> usize {
    unsafe { LOGN }
}
fn log(i: usize) -> (u8, u8) {
    unsafe { LOG[i] }
}

#[kani::proof]
#[kani::unwind(6)]
fn cb_put() {
    let (mut l, pre) = any_cb_lru();
    let k: u8 = kani::any();
    let v: u8 = kani::any();
    kani::cover!(pre.has(k), "cb put: update");
    kani::cover!(!pre.has(k) && pre.n == pre.cap && pre.cap > 0, "cb put: eviction");
    kani::cover!(!pre.has(k) && pre.n < pre.cap, "cb put: room");
    let r = l.put(k, v);
    match pr_of(&r) {
        PR::Evicted(ek, ev) if pre.cap > 0 => {
            ck!(logn() == 1 && log(0) == (ek, ev) && Some((ek, ev)) == pre.last(),
                "[C15.evict] capacity eviction invokes the callback exactly once with the departing key and its current value");
        }
        _ => ck!(logn() == 0, "[C15.silent] no callback for an update, for a put with room, or for a pair that never entered"),
    }
    core::mem::forget(l);
}

#[kani::proof]
#[kani::unwind(6)]
fn cb_remove() {
    let (mut l, pre) = any_cb_lru();
    let k: u8 = kani::any();
    kani::cover!(pre.has(k), "cb remove: hit");
    kani::cover!(!pre.has(k), "cb remove: miss");
    let r = l.remove(&k);
    match pre.val_of(k) {
        Some(v) => ck!(logn() == 1 && log(0) == (k, v) && r == Some(v), "[C15.remove] remove invokes the callback exactly once with the removed pair"),
        None => ck!(logn() == 0, "[C15.silent] no callback when nothing is removed"),
    }
    core::mem::forget(l);
}

#[kani::proof]
#[kani::unwind(6)]
fn cb_remove_lru() {
    let (mut l, pre) = any_cb_lru();
    kani::cover!(pre.n > 0, "cb remove_lru: non-empty");
    kani::cover!(pre.n == 0, "cb remove_lru: empty");
    let _ = l.remove_lru();
    match pre.last() {
        Some(p) => ck!(logn() == 1 && log(0) == p, "[C15.remove] remove_lru invokes the callback exactly once with the departing pair"),
        None => ck!(logn() == 0, "[C15.silent] no callback when nothing is removed"),
    }
    core::mem::forget(l);
}

#[kani::proof]
#[kani::unwind(6)]
fn cb_purge() {
    let (mut l, pre) = any_cb_lru();
    kani::cover!(pre.n >= 2, "cb purge: several entries");
    l.purge();
    ck!(logn() == pre.n, "[C15.purge] purge invokes the callback exactly once per retained entry");
    // every entry appears in the log (with its current value); with logn == n and distinct keys this is a bijection
    let mut i = 0;
    while i < NMAX {
        if i < pre.n {
            let mut hits = 0;
            let mut j = 0;
            while j < NMAX {
                if j < pre.n && log(j) == (pre.k[i], pre.v[i]) {
                    hits += 1;
                }
                j += 1;
            }
            ck!(hits == 1, "[C15.purge] each purged entry is reported once, with its own key and current value");
        }
        i += 1;
    }
    core::mem::forget(l);
}

#[kani::proof]
#[kani::unwind(6)]
fn cb_resize() {
    let (mut l, pre) = any_cb_lru();
    let c: usize = kani::any();
    kani::assume(c <= N + 1);
    kani::cover!(pre.n >= 2 && c == 0, "cb resize: discards several");
    kani::cover!(c >= pre.n, "cb resize: discards nothing");
    l.resize(c);
    let dropped = if pre.n > c { pre.n - c } else { 0 };
    ck!(logn() == dropped, "[C15.resize] resize invokes the callback exactly once per discarded entry, never otherwise");
    let mut i = 0;
    while i < NMAX {
        if i < dropped {
            // least recently used first
            let idx = pre.n - 1 - i;
            ck!(log(i) == (pre.k[idx], pre.v[idx]), "[C15.resize][C15.order] discarded entries are reported in the order they leave (LRU first)");
        }
        i += 1;
    }
    core::mem::forget(l);
}

#[kani::proof]
#[kani::unwind(6)]
fn cb_reads_are_silent() {
    let (mut l, pre) = any_cb_lru();
    let k: u8 = kani::any();
    let v: u8 = kani::any();
    kani::cover!(pre.has(k), "cb reads: hit");
    let _ = l.get(&k);
    let _ = l.get_mut(&k);
    let _ = l.peek(&k);
    let _ = l.peek_mut(&k);
    let _ = l.contains(&k);
    let _ = l.get_lru();
    let _ = l.get_mru();
    let _ = l.peek_lru();
    let _ = l.peek_mru();
    let _ = l.len();
    for _ in l.iter() {}
    if pre.has(k) {
        let _ = l.peek_or_put(k, v);
        let _ = l.peek_mut_or_put(k, v);
        let _ = l.contains_or_put(k, v);
    }
    ck!(logn() == 0, "[C15.silent] reads, *_or_put hits and iteration never invoke the callback");
    core::mem::forget(l);
}

// *_or_put on an ABSENT key is a put: a capacity eviction it causes must be reported like put's (the hit case is in
// cb_reads_are_silent).  Added after the independently seeded change C15-4 (contains_or_put linking the node itself
// and evicting silently) went unnoticed: the contract of these three entry points had only been stated for hits.
#[kani::proof]
#[kani::unwind(6)]
fn cb_or_put_miss() {
    let (mut l, pre) = any_cb_lru();
    let k: u8 = kani::any();
    let v: u8 = kani::any();
    let which: u8 = kani::any();
    kani::assume(which < 3);
    kani::assume(!pre.has(k));
    kani::cover!(which == 0 && pre.n == pre.cap && pre.cap > 0, "cb peek_or_put miss: eviction");
    kani::cover!(which == 1 && pre.n == pre.cap && pre.cap > 0, "cb peek_mut_or_put miss: eviction");
    kani::cover!(which == 2 && pre.n == pre.cap && pre.cap > 0, "cb contains_or_put miss: eviction");
    kani::cover!(pre.n < pre.cap, "cb *_or_put miss: room");
    let r = match which {
        0 => l.peek_or_put(k, v).1.map(|x| pr_of(&x)),
        1 => l.peek_mut_or_put(k, v).1.map(|x| pr_of(&x)),
        _ => l.contains_or_put(k, v).1.map(|x| pr_of(&x)),
    };
    if pre.cap > 0 && pre.n == pre.cap {
        ck!(logn() == 1 && Some(log(0)) == pre.last() && r == Some(PR::Evicted(log(0).0, log(0).1)),
            "[C15.evict] a capacity eviction caused by *_or_put on an absent key invokes the callback exactly once with the departing pair");
    } else {
        ck!(logn() == 0, "[C15.silent] *_or_put on an absent key with room (or capacity 0) invokes no callback");
    }
    core::mem::forget(l);
}

// both constructors that take a callback keep it
#[kani::proof]
#[kani::unwind(6)]
fn cb_ctor_with_hasher() {
    unsafe { LOGN = 0 };
    let mut l = RawLRU::<u8, u8, RecCb, PoisonHasher>::with_on_evict_cb_and_hasher(1, RecCb, PoisonHasher).unwrap();
    let (a, b, c, d): (u8, u8, u8, u8) = kani::any();
    kani::assume(a != c);
    l.put(a, b);
    ck!(logn() == 0, "[C15.silent] no callback while there is room");
    l.put(c, d);
    ck!(logn() == 1 && log(0) == (a, b), "[C15.evict][C15.ctor] a cache built by with_on_evict_cb_and_hasher reports evictions through the callback");
}

// the order in which purge reports departing entries must be a function of the cache's history (its view),
// not of the index's iteration order or of allocation addresses (C17), whatever that order is (C15 only says
// "in the order the entries leave")
#[kani::proof]
#[kani::unwind(6)]
fn cb_purge_order_is_deterministic() {
    let a = any_abs(N, 0);
    kani::cover!(a.n >= 2, "purge order: several entries");
    unsafe { LOGN = 0 };
    let mut x: CbLru = build(&a, PoisonHasher, Some(RecCb));
    x.purge();
    let n1 = logn();
    let mut first = [(0u8, 0u8); NMAX];
    let mut i = 0;
    while i < NMAX {
        if i < n1 {
            first[i] = log(i);
        }
        i += 1;
    }
    unsafe { LOGN = 0 };
    // same view, nodes allocated in the opposite order, index slots filled in the opposite order
    let mut y: CbLru = crate::verif_hooks::gen::build_rev(&a, PoisonHasher, Some(RecCb));
    y.purge();
    ck!(logn() == n1 && n1 == a.n, "[C15.purge][C17.tworun] both runs report every entry once");
    let mut i = 0;
    while i < NMAX {
        if i < n1 {
            ck!(log(i) == first[i], "[C17.tworun][C15.order] the order in which purge reports entries does not depend on index iteration order or allocation addresses");
        }
        i += 1;
    }
    core::mem::forget(x);
    core::mem::forget(y);
}
