// K-ITER: iterator contracts (C14) over an arbitrary well-formed list and an arbitrary
// next/next_back schedule of len()+2 steps.  Ghost cursors (lo, rem) range over the abstract view.
// Non-blocking check: Kani's `assert!` assumes its condition afterwards, so the first failing conjunct of a contract
// would hide every later one on the same path (and with it the verdicts of the other properties that harness serves).
// `ck!` performs the check on a nondeterministically chosen side branch, so every conjunct is reported independently.
macro_rules! ck {
    ($c:expr, $m:literal) => {
        if kani::any::<bool>() {
            assert!($c, $m);
        }
    };
    ($c:expr) => {
        assert!($c)
    };
}

use super::harness::{any_lru, Lru, N};
use super::*;
use crate::verif_hooks::spec::*;

/// iterator harnesses use lists one longer than the operation harnesses
const NI: usize = N + 1;
const STEPS: usize = NI + 2;

macro_rules! entry_iter_harness {
    ($name:ident, $mk:expr, $rev:expr, $item:expr) => {
        #[kani::proof]
        #[kani::unwind(8)]
        fn $name() {
            let (mut l, pre) = any_lru(NI, 0);
            kani::cover!(pre.n == 0, "iterator over an empty list");
            kani::cover!(pre.n == 1, "iterator over a single entry");
            kani::cover!(pre.n == NI, "iterator over a full-length list");
            {
                let mut it = ($mk)(&mut l);
                let mut lo = 0usize;
                let mut rem = pre.n;
                ck!(it.len() == pre.n && it.size_hint() == (pre.n, Some(pre.n)), "[C14.len] a fresh iterator reports exactly len() items");
                let mut step = 0;
                while step < STEPS {
                    let back: bool = kani::any();
                    let got = if back { it.next_back().map(($item)) } else { it.next().map(($item)) };
                    if rem == 0 {
                        ck!(got.is_none(), "[C14.exhausted] an exhausted iterator stays exhausted, from both ends");
                    } else {
                        let front = back == $rev;
                        let idx = if front { lo } else { lo + rem - 1 };
                        if front {
                            lo += 1;
                        }
                        rem -= 1;
                        ck!(got == Some((pre.k[idx], pre.v[idx])), "[C14.order] next/next_back yield the view's entries in the documented order, none skipped or repeated");
                    }
                    ck!(it.size_hint() == (rem, Some(rem)) && it.len() == rem, "[C14.len] size_hint/len are exact after every step");
                    step += 1;
                }
                ck!(it.count() == rem, "[C14.len] count() is exact");
            }
            let post = l.verif_abs();
            ck!(post == pre && l.verif_wf(), "[C13.readonly][C14.readonly] constructing and draining an iterator leaves the cache unchanged");
            core::mem::forget(l);
        }
    };
}

fn kv<'a>(p: (&'a u8, &'a u8)) -> (u8, u8) {
    (*p.0, *p.1)
}
fn kvm<'a>(p: (&'a u8, &'a mut u8)) -> (u8, u8) {
    (*p.0, *p.1)
}

entry_iter_harness!(iter_mru, |l: &mut Lru| unsafe { &*(l as *const Lru) }.iter(), false, kv);
entry_iter_harness!(iter_lru, |l: &mut Lru| unsafe { &*(l as *const Lru) }.iter_lru(), true, kv);
entry_iter_harness!(iter_mut_mru, |l: &mut Lru| unsafe { &mut *(l as *mut Lru) }.iter_mut(), false, kvm);
entry_iter_harness!(iter_mut_lru, |l: &mut Lru| unsafe { &mut *(l as *mut Lru) }.iter_lru_mut(), true, kvm);
entry_iter_harness!(into_iter_ref, |l: &mut Lru| unsafe { &*(l as *const Lru) }.into_iter(), false, kv);
entry_iter_harness!(into_iter_mut, |l: &mut Lru| unsafe { &mut *(l as *mut Lru) }.into_iter(), false, kvm);

// projections: keys / values iterators are the projections of the entry iterators
macro_rules! proj_iter_harness {
    ($name:ident, $mk:expr, $rev:expr, $pick:expr) => {
        #[kani::proof]
        #[kani::unwind(8)]
        fn $name() {
            let (mut l, pre) = any_lru(NI, 0);
            kani::cover!(pre.n == NI, "projection iterator over a full-length list");
            {
                let mut it = ($mk)(&mut l);
                let mut lo = 0usize;
                let mut rem = pre.n;
                ck!(it.len() == pre.n, "[C14.len] a fresh keys/values iterator reports exactly len() items");
                let mut step = 0;
                while step < STEPS {
                    let back: bool = kani::any();
                    let got = if back { it.next_back().map(|x| *x) } else { it.next().map(|x| *x) };
                    if rem == 0 {
                        ck!(got.is_none(), "[C14.exhausted] an exhausted keys/values iterator stays exhausted");
                    } else {
                        let front = back == $rev;
                        let idx = if front { lo } else { lo + rem - 1 };
                        if front {
                            lo += 1;
                        }
                        rem -= 1;
                        let exp: u8 = ($pick)(&pre, idx);
                        ck!(got == Some(exp), "[C14.proj] keys/values iterators are the projections of the entry iterators, in order");
                    }
                    ck!(it.size_hint() == (rem, Some(rem)) && it.len() == rem, "[C14.len] size_hint/len of keys/values iterators are exact after every step");
                    step += 1;
                }
                ck!(it.count() == rem, "[C14.len] count() of keys/values iterators is exact");
            }
            ck!(l.verif_abs() == pre, "[C13.readonly][C14.readonly] draining a keys/values iterator leaves the cache unchanged");
            core::mem::forget(l);
        }
    };
}

fn pk(a: &Abs, i: usize) -> u8 {
    a.k[i]
}
fn pv(a: &Abs, i: usize) -> u8 {
    a.v[i]
}

proj_iter_harness!(keys_mru, |l: &mut Lru| unsafe { &*(l as *const Lru) }.keys(), false, pk);
proj_iter_harness!(keys_lru, |l: &mut Lru| unsafe { &*(l as *const Lru) }.keys_lru(), true, pk);
proj_iter_harness!(values_mru, |l: &mut Lru| unsafe { &*(l as *const Lru) }.values(), false, pv);
proj_iter_harness!(values_lru, |l: &mut Lru| unsafe { &*(l as *const Lru) }.values_lru(), true, pv);
proj_iter_harness!(values_mut_mru, |l: &mut Lru| unsafe { &mut *(l as *mut Lru) }.values_mut(), false, pv);
proj_iter_harness!(values_mut_lru, |l: &mut Lru| unsafe { &mut *(l as *mut Lru) }.values_lru_mut(), true, pv);

// writes through mutable iterators land in the right entry and leave the order unchanged
macro_rules! write_iter_harness {
    ($name:ident, $mk:expr, $rev:expr, $val:expr) => {
        #[kani::proof]
        #[kani::unwind(8)]
        fn $name() {
            let (mut l, pre) = any_lru(NI, 0);
            let w: [u8; NMAX] = kani::any();
            kani::cover!(pre.n == NI, "mutable iterator over a full-length list");
            let mut exp = pre;
            {
                let mut it = ($mk)(&mut l);
                let mut lo = 0usize;
                let mut rem = pre.n;
                let mut step = 0;
                while step < STEPS {
                    let back: bool = kani::any();
                    let got = if back { it.next_back() } else { it.next() };
                    if let Some(item) = got {
                        let front = back == $rev;
                        let idx = if front { lo } else { lo + rem - 1 };
                        if front {
                            lo += 1;
                        }
                        rem -= 1;
                        let slot: &mut u8 = ($val)(item);
                        *slot = w[idx];
                        exp.v[idx] = w[idx];
                    }
                    step += 1;
                }
            }
            let post = l.verif_abs();
            ck!(post == exp && l.verif_wf(), "[C14.write][C02.write] writes through a mutable iterator land in the yielded entry, order unchanged");
            core::mem::forget(l);
        }
    };
}

fn second<'a>(p: (&'a u8, &'a mut u8)) -> &'a mut u8 {
    p.1
}
fn ident<'a>(p: &'a mut u8) -> &'a mut u8 {
    p
}
write_iter_harness!(write_iter_mut, |l: &mut Lru| unsafe { &mut *(l as *mut Lru) }.iter_mut(), false, second);
write_iter_harness!(write_iter_lru_mut, |l: &mut Lru| unsafe { &mut *(l as *mut Lru) }.iter_lru_mut(), true, second);
write_iter_harness!(write_values_mut, |l: &mut Lru| unsafe { &mut *(l as *mut Lru) }.values_mut(), false, ident);
write_iter_harness!(write_values_lru_mut, |l: &mut Lru| unsafe { &mut *(l as *mut Lru) }.values_lru_mut(), true, ident);

// clones of an iterator advance independently
macro_rules! clone_iter_harness {
    ($name:ident, $mk:expr) => {
        #[kani::proof]
        #[kani::unwind(8)]
        fn $name() {
            let (l, pre) = any_lru(NI, 0);
            let mut it = ($mk)(&l);
            let adv: usize = kani::any();
            kani::assume(adv <= STEPS);
            kani::cover!(adv > 0 && adv < pre.n, "clone taken mid-way");
            let mut s = 0;
            while s < STEPS {
                if s < adv {
                    let back: bool = kani::any();
                    if back { it.next_back(); } else { it.next(); }
                }
                s += 1;
            }
            let mut c = it.clone();
            let rem = it.len();
            ck!(c.len() == rem, "[C14.clone] a clone starts where the original stands");
            // advance the clone arbitrarily: the original must not move
            let back: bool = kani::any();
            let from_clone = if back { c.next_back() } else { c.next() };
            ck!(it.len() == rem, "[C14.clone] advancing a clone does not advance the original");
            let from_orig = if back { it.next_back() } else { it.next() };
            ck!(from_clone == from_orig, "[C14.clone] clone and original yield the same next item");
            core::mem::forget(l);
        }
    };
}
clone_iter_harness!(clone_iter_mru, |l: &Lru| unsafe { &*(l as *const Lru) }.iter());
clone_iter_harness!(clone_iter_lru, |l: &Lru| unsafe { &*(l as *const Lru) }.iter_lru());
clone_iter_harness!(clone_keys, |l: &Lru| unsafe { &*(l as *const Lru) }.keys());
clone_iter_harness!(clone_keys_lru, |l: &Lru| unsafe { &*(l as *const Lru) }.keys_lru());
clone_iter_harness!(clone_values, |l: &Lru| unsafe { &*(l as *const Lru) }.values());
clone_iter_harness!(clone_values_lru, |l: &Lru| unsafe { &*(l as *const Lru) }.values_lru());
