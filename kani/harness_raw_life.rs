// K-CLONE (C16, C17), K-DROP (C04, C03), K-KEYS (C02 borrowed lookups), K-FROM (C05 conversions)
// Non-blocking check: Kani's `assert!` assumes its condition afterwards, so the first failing conjunct of a contract
// would hide every later one on the same path (and with it the verdicts of the other properties that harness serves).
// `ck!` performs the check on a nondeterministically chosen side branch, so every conjunct is reported independently.
macro_rules! ck {
    ($c:expr, $m:literal) => {
        if kani::any::<bool>() {
            assert!($c, $m);
        }
    };
    ($c:expr) => {
        assert!($c)
    };
}

use super::harness::{any_abs, any_lru, build, Lru, N};
use crate::verif_hooks::gen::build_rev;
use super::*;
use crate::verif_hooks::spec::*;
use crate::verif_hooks::PoisonHasher;
use crate::{Cache, DefaultEvictCallback, PutResult, ResizableCache};
use alloc::boxed::Box;

// ------------------------------------------------------------------ clone

#[kani::proof]
#[kani::unwind(6)]
fn clone_is_identical_then_independent() {
    let (l, pre) = any_lru(N, 1);
    kani::cover!(pre.n >= 2, "clone: several entries (order matters)");
    kani::cover!(pre.n == 0, "clone: empty");
    let mut c = l.clone();
    let cv = c.verif_abs();
    ck!(c.verif_wf(), "[C03.wf][C16.wf] a clone is a well-formed cache");
    ck!(cv.cap == pre.cap && cv.same_map(&pre), "[C16.contents] a clone has the same capacity, keys and values");
    ck!(cv == pre, "[C16.order][C17.maporder] a clone has the same recency order, whatever order the index iterates in");
    ck!(l.verif_abs() == pre && l.verif_wf(), "[C16.independent][C13.readonly] cloning leaves the original unchanged");
    // independence: no node is shared
    let (a, an, _) = l.verif_nodes();
    let (b, bn, _) = c.verif_nodes();
    let mut i = 0;
    while i < NMAX {
        let mut j = 0;
        while j < NMAX {
            if i < an && j < bn {
                ck!(a[i] != b[j], "[C16.independent][C03.alias] original and clone share no node");
            }
            j += 1;
        }
        i += 1;
    }
    // operate on the clone, then drop it: the original is unaffected and still usable
    let k: u8 = kani::any();
    let v: u8 = kani::any();
    let _ = c.put(k, v);
    let _ = c.remove_lru();
    drop(c);
    ck!(l.verif_abs() == pre && l.verif_wf(), "[C16.independent] operations on the clone, and dropping it, never affect the original");
    let j: u8 = kani::any();
    ck!(l.peek(&j).copied() == pre.val_of(j), "[C16.independent][C03.uaf] the original still answers lookups from live memory after the clone is gone");
    drop(l);
}

// ------------------------------------------------------------------ ownership conservation with drop-tracked payloads

pub use crate::verif_hooks::gen::{drops, reset_drops, Tk, Tv, IDS};

type TLru = RawLRU<Tk, Tv, DefaultEvictCallback, PoisonHasher>;

/// key ids 0..4, value ids 4..8, all distinct: every object is tracked individually
fn any_tracked(mincap: usize) -> (TLru, Abs) {
    let mut a = any_abs(N, mincap);
    let mut i = 0;
    while i < NMAX {
        if i < a.n {
            kani::assume(a.k[i] < 4 && a.v[i] >= 4 && a.v[i] < 8);
            let mut j = 0;
            while j < i {
                kani::assume(a.v[i] != a.v[j]);
                j += 1;
            }
        }
        i += 1;
    }
    reset_drops();
    let l: TLru = RawLRU::verif_from_parts(a.cap, PoisonHasher, None, a.n, |i| (Tk(a.k[i]), Tv(a.v[i])));
    (l, a)
}

/// created: bitmask of ids handed to the cache (pre-state and arguments).  After the caller has dropped
/// everything it got back: retained ids were dropped 0 times, all other created ids exactly once.
fn conservation(created: u8, post: &Abs) -> bool {
    let mut ok = true;
    let mut id = 0u8;
    while (id as usize) < 8 {
        let was_created = (created >> id) & 1 == 1;
        let mut retained = false;
        let mut i = 0;
        while i < NMAX {
            if i < post.n && (post.k[i] == id || post.v[i] == id) {
                retained = true;
            }
            i += 1;
        }
        let want = if was_created && !retained { 1 } else { 0 };
        if drops(id) != want {
            ok = false;
        }
        id += 1;
    }
    ok
}

fn all_released(created: u8) -> bool {
    let mut ok = true;
    let mut id = 0u8;
    while (id as usize) < 8 {
        let want = if (created >> id) & 1 == 1 { 1 } else { 0 };
        if drops(id) != want {
            ok = false;
        }
        id += 1;
    }
    ok
}

fn mask_of(a: &Abs) -> u8 {
    let mut m = 0u8;
    let mut i = 0;
    while i < NMAX {
        if i < a.n {
            m |= 1 << a.k[i];
            m |= 1 << a.v[i];
        }
        i += 1;
    }
    m
}

#[kani::proof]
#[kani::unwind(12)]
fn tracked_put_leakcheck() {
    let (mut l, pre) = any_tracked(0);
    let k: u8 = kani::any();
    let v: u8 = kani::any();
    kani::assume(k < 4 && v >= 4 && v < 8);
    // the new value object is a fresh one; the key object may EQUAL a stored key but is a distinct
    // object, so it gets its own id when the key is already present
    kani::assume(mask_of(&pre) & (1 << v) == 0);
    let hit = pre.has(k);
    kani::cover!(hit, "tracked put: update");
    kani::cover!(!hit && pre.n == pre.cap && pre.cap > 0, "tracked put: eviction");
    kani::cover!(pre.cap == 0, "tracked put: capacity 0");
    let created = mask_of(&pre) | (1 << v) | if hit { 0 } else { 1 << k };
    // on a hit the argument key object is a duplicate of the stored key: track it under a spare id
    let r = if hit {
        let spare: u8 = kani::any();
        kani::assume(spare < 4);
        let r = l.put(Tk(k), Tv(v));
        // cannot give an equal key a different id (Eq is by id), so account for the duplicate by hand:
        // the stored key object and the argument are indistinguishable; exactly one of them must have been dropped
        ck!(drops(k) == 1, "[C04.once] on an update the surplus key object is dropped exactly once, the other stays");
        crate::verif_hooks::gen::set_drops(k, 0);
        r
    } else {
        l.put(Tk(k), Tv(v))
    };
    drop(r);
    let post = l.verif_abs();
    ck!(conservation(created, &post), "[C04.once] after put every object is retained, or was handed back, or dropped exactly once");
    drop(l);
    ck!(all_released(created), "[C04.drop] dropping the cache releases every retained key and value exactly once");
}

#[kani::proof]
#[kani::unwind(12)]
fn tracked_remove_family_leakcheck() {
    let (mut l, pre) = any_tracked(0);
    let created = mask_of(&pre);
    let which: u8 = kani::any();
    kani::assume(which < 4);
    let k: u8 = kani::any();
    kani::assume(k < 4);
    let c: usize = kani::any();
    kani::assume(c <= N);
    kani::cover!(which == 0 && pre.has(k), "tracked remove: hit");
    kani::cover!(which == 1 && pre.n > 0, "tracked remove_lru");
    kani::cover!(which == 2 && pre.n >= 1, "tracked purge");
    kani::cover!(which == 3 && c < pre.n, "tracked resize: shrink");
    match which {
        0 => drop(l.remove(&Tk(k))),
        1 => drop(l.remove_lru()),
        2 => l.purge(),
        _ => {
            l.resize(c);
        }
    }
    // the probe key Tk(k) built for remove() is the caller's own object
    if which == 0 {
        crate::verif_hooks::gen::set_drops(k, drops(k) - 1);
    }
    let post = l.verif_abs();
    ck!(l.verif_wf(), "[C03.wf] list well formed after remove/remove_lru/purge/resize");
    ck!(conservation(created, &post), "[C04.once] remove/remove_lru/purge/resize release exactly the departing keys and values, once");
    if which == 2 {
        ck!(post.n == 0 && all_released(created), "[C04.purge] purge releases every retained key and value");
    }
    drop(l);
    ck!(all_released(created), "[C04.drop] dropping the cache releases everything still retained exactly once");
}

#[kani::proof]
#[kani::unwind(12)]
fn tracked_reads_then_drop_leakcheck() {
    let (mut l, pre) = any_tracked(0);
    let created = mask_of(&pre);
    let k: u8 = kani::any();
    kani::assume(k < 4);
    kani::cover!(pre.n >= 1, "tracked drop: populated");
    {
        let probe = Tk(k);
        let _ = l.get(&probe);
        let _ = l.peek(&probe);
        let _ = l.get_lru();
        core::mem::forget(probe);
    }
    let post = l.verif_abs();
    ck!(conservation(created, &post) && post.same_map(&pre), "[C04.once] lookups drop nothing");
    drop(l);
    ck!(all_released(created), "[C04.drop] dropping the cache at an arbitrary point releases every key and value exactly once");
}

// ------------------------------------------------------------------ borrowed-key lookups

type BoxLru = RawLRU<Box<u8>, u8, DefaultEvictCallback, PoisonHasher>;

#[kani::proof]
#[kani::unwind(6)]
fn borrowed_lookup_box_key() {
    // K = Box<u8> (heap-owning key), Q = u8: lookups through the borrowed form
    let a = any_abs(N, 1);
    let mut l: BoxLru = RawLRU::verif_from_parts(a.cap, PoisonHasher, None, a.n, |i| (Box::new(a.k[i]), a.v[i]));
    let q: u8 = kani::any();
    kani::cover!(a.has(q), "borrowed lookup: hit");
    kani::cover!(!a.has(q), "borrowed lookup: miss");
    ck!(l.contains(&q) == a.has(q), "[C02.borrow] contains(&Q) agrees with residency of the owned key");
    ck!(l.peek(&q).copied() == a.val_of(q), "[C02.borrow] peek(&Q) returns the value stored under the owned key");
    ck!(l.peek_mut(&q).map(|v| *v) == a.val_of(q), "[C02.borrow] peek_mut(&Q) returns the value stored under the owned key");
    ck!(l.contains(&Box::new(q)) == a.has(q), "[C02.borrow] lookup by the owned key form agrees");
    let g = l.get(&q).copied();
    ck!(g == a.val_of(q), "[C02.borrow] get(&Q) returns the value stored under the owned key");
    let r = l.remove(&q);
    ck!(r == a.val_of(q) && !l.contains(&q), "[C02.borrow] remove(&Q) removes exactly the owned key's entry");
    ck!(l.verif_wf(), "[C03.wf] list well formed after borrowed-key operations");
    drop(l);
}

type ArrLru = RawLRU<[u8; 2], u8, DefaultEvictCallback, PoisonHasher>;
impl Vid for [u8; 2] {
    fn vid(&self) -> u8 {
        self[0]
    }
}

#[kani::proof]
#[kani::unwind(6)]
fn borrowed_lookup_unsized_q() {
    // K = [u8; 2], Q = [u8] (unsized): exercises the KeyWrapper pointer cast with a fat pointer
    let a = any_abs(N, 1);
    let tag: u8 = kani::any();
    let mut l: ArrLru = RawLRU::verif_from_parts(a.cap, PoisonHasher, None, a.n, |i| ([a.k[i], tag], a.v[i]));
    let q0: u8 = kani::any();
    let q1: u8 = kani::any();
    let q: [u8; 2] = [q0, q1];
    let want = if q1 == tag { a.val_of(q0) } else { None };
    kani::cover!(want.is_some(), "unsized borrowed lookup: hit");
    kani::cover!(a.has(q0) && q1 != tag, "unsized borrowed lookup: near miss");
    ck!(l.contains(&q[..]) == want.is_some(), "[C02.borrow] contains(&[u8]) agrees with residency of the array key");
    ck!(l.peek(&q[..]).copied() == want, "[C02.borrow] peek(&[u8]) returns the stored value");
    ck!(l.get(&q[..]).copied() == want, "[C02.borrow] get(&[u8]) returns the stored value");
    ck!(l.remove(&q[..]) == want, "[C02.borrow] remove(&[u8]) hands back the stored value");
    ck!(l.verif_wf(), "[C03.wf] list well formed after unsized borrowed-key operations");
    drop(l);
}


// ------------------------------------------------------------------ two-run relational contract (C17)

#[kani::proof]
#[kani::unwind(6)]
fn two_run_same_history_same_behaviour() {
    // the same abstract state, built twice with different allocation addresses and a different index slot
    // order; the same operations; results, eviction choices and iteration order must coincide
    let a = any_abs(N, 0);
    let mut x: Lru = build(&a, PoisonHasher, None);
    let mut y: Lru = build_rev(&a, PoisonHasher, None);
    let (bx, wx) = x.verif_check();
    let (by, wy) = y.verif_check();
    ck!(wx && wy && bx == a && by == a, "[C03.builder] both builders produce the intended well-formed state");
    let k: u8 = kani::any();
    let v: u8 = kani::any();
    let c: usize = kani::any();
    kani::assume(c <= N);
    let op: u8 = kani::any();
    kani::assume(op < 5);
    kani::cover!(op == 0 && a.n == a.cap && !a.has(k) && a.n >= 2, "two-run: eviction choice");
    kani::cover!(op == 4 && c < a.n, "two-run: resize discards");
    let same = match op {
        0 => pr_of(&x.put(k, v)) == pr_of(&y.put(k, v)),
        1 => x.get(&k).copied() == y.get(&k).copied(),
        2 => x.remove(&k) == y.remove(&k),
        3 => x.remove_lru() == y.remove_lru(),
        _ => x.resize(c) == y.resize(c),
    };
    ck!(same, "[C17.tworun] return values do not depend on allocation addresses or index slot order");
    let (px, wfx) = x.verif_check();
    let (py, wfy) = y.verif_check();
    ck!(wfx && wfy && px == py, "[C17.tworun] eviction choices and recency order do not depend on allocation addresses or index slot order");
    let cx = x.clone();
    ck!(cx.verif_abs() == py, "[C17.tworun][C16.order] a clone of one run equals the other run");
    core::mem::forget(x);
    core::mem::forget(y);
    core::mem::forget(cx);
}

// ------------------------------------------------------------------ conversions (C05)

/// RandomState::new reads OS randomness (not executable under Kani); the index shim never consults the
/// hasher, so a fixed state is an exact stand-in for this harness.
#[cfg(feature = "std")]
fn stub_random_state_new() -> std::collections::hash_map::RandomState {
    unsafe { core::mem::zeroed() }
}

#[cfg(feature = "std")]
#[kani::proof]
#[kani::unwind(8)]
#[kani::stub(std::hash::RandomState::new, stub_random_state_new)]
fn from_iterator_never_panics() {
    // FromIterator / From<[(K, V); N]> with 0, 1 and 2 pairs (duplicate keys allowed)
    let (k1, v1, k2, v2): (u8, u8, u8, u8) = kani::any();
    let which: u8 = kani::any();
    kani::assume(which < 3);
    kani::cover!(which == 0, "from: empty iterator");
    kani::cover!(which == 2 && k1 == k2, "from: duplicate keys");
    let (l, n): (RawLRU<u8, u8>, usize) = match which {
        0 => (None::<(u8, u8)>.into_iter().collect(), 0),
        1 => (Some((k1, v1)).into_iter().collect(), 1),
        _ => (RawLRU::from([(k1, v1), (k2, v2)]), 2),
    };
    ck!(l.len() <= n && (n == 0 || l.len() >= 1), "[C05.from] a conversion never panics and retains at most the given pairs");
    if which == 1 {
        ck!(l.peek(&k1) == Some(&v1), "[C05.from][C02.value] a single pair is resident with its value");
    }
    if which == 2 {
        ck!(l.peek(&k2) == Some(&v2), "[C05.from][C02.value] the last pair given is resident with its value");
    }
    core::mem::forget(l);
}

// the remaining public constructors differ from with_hasher / with_on_evict_cb_and_hasher only in the hasher they pass
// kind: proved (cap ranges over all usize)
#[cfg(feature = "std")]
#[kani::proof]
#[kani::unwind(8)]
#[kani::stub(std::hash::RandomState::new, stub_random_state_new)]
fn ctor_default_hasher_variants() {
    let cap: usize = kani::any();
    match RawLRU::<u8, u8>::new(cap) {
        Ok(l) => {
            ck!(cap != 0 && l.cap() == cap && l.len() == 0 && l.verif_wf(), "[C05.ctor][C01.cap] new(cap) gives an empty well-formed cache of that capacity");
            core::mem::forget(l);
        }
        Err(e) => ck!(cap == 0 && e == CacheError::InvalidSize(0), "[C05.ctor] new rejects exactly capacity 0 with InvalidSize(0)"),
    }
    match RawLRU::<u8, u8, DefaultEvictCallback>::with_on_evict_cb(cap, DefaultEvictCallback) {
        Ok(l) => {
            ck!(cap != 0 && l.cap() == cap && l.len() == 0 && l.verif_wf(), "[C05.ctor][C15.ctor] with_on_evict_cb(cap, cb) gives an empty well-formed cache of that capacity");
            core::mem::forget(l);
        }
        Err(e) => ck!(cap == 0 && e == CacheError::InvalidSize(0), "[C05.ctor] with_on_evict_cb rejects exactly capacity 0 with InvalidSize(0)"),
    }
}
