// K-SLFU: SampledLFU cost accounting (C20).  Arbitrary tracker state: a table of <= N (hash, cost) pairs
// with distinct hashes and `used` equal to the sum of the recorded costs (the invariant), arbitrary
// max_cost and sample size.  Costs are bounded by 2^40 in magnitude so that no i64 sum overflows (stated).
// Non-blocking check: Kani's `assert!` assumes its condition afterwards, so the first failing conjunct of a contract
// would hide every later one on the same path (and with it the verdicts of the other properties that harness serves).
// `ck!` performs the check on a nondeterministically chosen side branch, so every conjunct is reported independently.
macro_rules! ck {
    ($c:expr, $m:literal) => {
        if kani::any::<bool>() {
            assert!($c, $m);
        }
    };
    ($c:expr) => {
        assert!($c)
    };
}

use super::*;
use crate::verif_hooks::gen::N;
use crate::verif_hooks::spec::NMAX;
use crate::verif_hooks::{ByteKeyHasher, PoisonHasher};
use alloc::vec::Vec;

type Slfu = SampledLFU<u8, ByteKeyHasher, PoisonHasher>;
const BIG: i64 = 1 << 40;

#[derive(Clone, Copy)]
struct Tab {
    n: usize,
    k: [u64; NMAX],
    c: [i64; NMAX],
    max_cost: i64,
    samples: usize,
}

impl Tab {
    fn sum(&self) -> i64 {
        let mut s = 0i64;
        let mut i = 0;
        while i < NMAX {
            if i < self.n {
                s += self.c[i];
            }
            i += 1;
        }
        s
    }
    fn cost_of(&self, h: u64) -> Option<i64> {
        let mut r = None;
        let mut i = 0;
        while i < NMAX {
            if i < self.n && self.k[i] == h {
                r = Some(self.c[i]);
            }
            i += 1;
        }
        r
    }
}

fn any_cost() -> i64 {
    let c: i64 = kani::any();
    kani::assume(c > -BIG && c < BIG);
    c
}

fn any_slfu(maxn: usize) -> (Slfu, Tab) {
    let n: usize = kani::any();
    kani::assume(n <= maxn);
    let mut t = Tab { n, k: kani::any(), c: [0; NMAX], max_cost: any_cost(), samples: kani::any() };
    let mut i = 0;
    while i < NMAX {
        t.c[i] = any_cost();
        let mut j = 0;
        while j < i {
            kani::assume(!(i < n) || t.k[i] != t.k[j]);
            j += 1;
        }
        i += 1;
    }
    let s = Slfu::verif_from_parts(t.samples, t.max_cost, t.sum(), ByteKeyHasher, PoisonHasher, n, |i| (t.k[i], t.c[i]));
    (s, t)
}

/// the tracker's table equals `t`'s, and `used`/room_left are exact
macro_rules! accounting {
    ($s:expr, $exp:expr) => {
        let probe = any_cost();
        ck!($s.verif_used() == $exp.sum(), "[C20.used] the running total equals the sum of the costs currently recorded");
        ck!($s.room_left(probe) == $exp.max_cost - $exp.sum() - probe, "[C20.room] room_left(c) == max_cost - sum of recorded costs - c");
        ck!($s.verif_len() == $exp.n, "[C20.table] exactly the expected keys are tracked");
        let mut i = 0;
        while i < NMAX {
            if i < $exp.n {
                ck!($s.verif_cost_of($exp.k[i]) == Some($exp.c[i]), "[C20.table] every tracked key carries its recorded cost");
            }
            i += 1;
        }
    };
}

#[kani::proof]
#[kani::unwind(6)]
fn slfu_increment() {
    let (mut s, t) = any_slfu(N);
    let h: u64 = kani::any();
    let c = any_cost();
    let by_key: bool = kani::any();
    let key: u8 = kani::any();
    let h = if by_key { key as u64 } else { h };
    kani::cover!(t.cost_of(h).is_some(), "increment on an already tracked key");
    kani::cover!(t.cost_of(h).is_none() && t.n == N, "increment of a new key into a populated table");
    kani::cover!(by_key && t.cost_of(h).is_some(), "increment by key on an already tracked key");
    if by_key { s.increment(&key, c) } else { s.increment_hashed_key(h, c) }
    let mut exp = t;
    let mut found = false;
    let mut i = 0;
    while i < NMAX {
        if i < t.n && t.k[i] == h {
            exp.c[i] = c;
            found = true;
        }
        i += 1;
    }
    if !found {
        exp.k[t.n] = h;
        exp.c[t.n] = c;
        exp.n = t.n + 1;
    }
    accounting!(s, exp);
}

#[kani::proof]
#[kani::unwind(6)]
fn slfu_update_remove() {
    let (mut s, t) = any_slfu(N);
    let h: u64 = kani::any();
    let c = any_cost();
    let by_key: bool = kani::any();
    let key: u8 = kani::any();
    let h = if by_key { key as u64 } else { h };
    let remove: bool = kani::any();
    kani::cover!(remove && t.cost_of(h).is_some(), "remove of a tracked key");
    kani::cover!(remove && t.cost_of(h).is_none(), "remove of an untracked key");
    kani::cover!(!remove && t.cost_of(h).is_some() && by_key, "update of a tracked key, by key");
    kani::cover!(!remove && t.cost_of(h).is_none(), "update of an untracked key");
    let mut exp = t;
    if remove {
        let r = if by_key { s.remove(&key) } else { s.remove_hashed_key(h) };
        ck!(r == t.cost_of(h), "[C20.report] remove reports exactly whether the key was tracked, and its recorded cost");
        let mut i = 0;
        while i < NMAX {
            if i < t.n && t.k[i] == h {
                // move the last entry into the hole (order is irrelevant)
                exp.k[i] = t.k[t.n - 1];
                exp.c[i] = t.c[t.n - 1];
                exp.n = t.n - 1;
            }
            i += 1;
        }
    } else {
        let r = if by_key { s.update(&key, c) } else { s.update_hashed_key(h, c) };
        ck!(r == t.cost_of(h).is_some(), "[C20.report] update reports exactly whether the key was tracked");
        let mut i = 0;
        while i < NMAX {
            if i < t.n && t.k[i] == h {
                exp.c[i] = c;
            }
            i += 1;
        }
    }
    accounting!(s, exp);
}

#[kani::proof]
#[kani::unwind(6)]
fn slfu_clear_max_cost() {
    let (mut s, t) = any_slfu(N);
    let mc = any_cost();
    let clear: bool = kani::any();
    kani::cover!(clear && t.n > 0, "clear of a populated tracker");
    let mut exp = t;
    if clear {
        s.clear();
        exp.n = 0;
    } else {
        s.update_max_cost(mc);
        exp.max_cost = mc;
        ck!(s.get_max_cost() == mc, "[C20.room] get_max_cost returns the updated maximum");
    }
    accounting!(s, exp);
}

/// fill_sample with a CONCRETE input length m (so that Vec growth inside the tracker's pushes is decided by
/// constant propagation: the input vector is created with spare capacity and never reallocates)
fn fill_sample_case(m: usize) {
    let (mut s, t) = any_slfu(N);
    kani::assume(t.samples <= NMAX + 2);
    let ik: [u64; 2] = kani::any();
    let ic: [i64; 2] = kani::any();
    let mut input: Vec<(u64, i64)> = Vec::with_capacity(NMAX + 4);
    let mut i = 0;
    while i < 2 {
        if i < m {
            input.push((ik[i], ic[i]));
        }
        i += 1;
    }
    kani::cover!(m >= t.samples, "fill_sample: input already long enough");
    kani::cover!(m < t.samples && m + t.n > t.samples, "fill_sample: stops at the sample size");
    kani::cover!(m + t.n < t.samples && t.n > 0, "fill_sample: table exhausted first");
    let out = s.fill_sample(input);
    let want_len = if m >= t.samples { m } else if m + t.n < t.samples { m + t.n } else { t.samples };
    ck!(out.len() == want_len, "[C20.sample] fill_sample stops at the sample size or when every tracked pair was added");
    let mut i = 0;
    while i < NMAX + 2 {
        if i < out.len() {
            if i < m {
                ck!(out[i] == (ik[i], ic[i]), "[C20.sample] fill_sample returns its input first, unchanged");
            } else {
                ck!(t.cost_of(out[i].0) == Some(out[i].1), "[C20.sample] every appended pair is a genuinely tracked (key, cost) pair");
                let mut j = m;
                while j < i {
                    ck!(out[j].0 != out[i].0, "[C20.sample] no tracked pair is appended twice");
                    j += 1;
                }
            }
        }
        i += 1;
    }
    let exp = t;
    accounting!(s, exp);
    core::mem::forget(out);
}

#[kani::proof]
#[kani::unwind(8)]
fn slfu_fill_sample_0() {
    fill_sample_case(0)
}

#[kani::proof]
#[kani::unwind(8)]
fn slfu_fill_sample_1() {
    fill_sample_case(1)
}

#[kani::proof]
#[kani::unwind(8)]
fn slfu_fill_sample_2() {
    fill_sample_case(2)
}

// negative control: MUST fail (see harness_raw.rs)
#[kani::proof]
#[kani::unwind(6)]
fn negctl_increment_never_changes_room() {
    let (mut s, t) = any_slfu(N);
    let c = any_cost();
    let h: u64 = kani::any();
    s.increment_hashed_key(h, c);
    ck!(s.room_left(0) == t.max_cost - t.sum(), "[negctl] increment leaves room_left unchanged (false)");
}
