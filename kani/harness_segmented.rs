// K-SEG: SegmentedCache contracts (C07, and C01/C02/C03/C12/C13 for this cache type).
// Non-blocking check: Kani's `assert!` assumes its condition afterwards, so the first failing conjunct of a contract
// would hide every later one on the same path (and with it the verdicts of the other properties that harness serves).
// `ck!` performs the check on a nondeterministically chosen side branch, so every conjunct is reported independently.
macro_rules! ck {
    ($c:expr, $m:literal) => {
        if kani::any::<bool>() {
            assert!($c, $m);
        }
    };
    ($c:expr) => {
        assert!($c)
    };
}

use super::*;
use crate::verif_hooks::gen::{any_abs, build, N};
use crate::verif_hooks::spec::*;
use crate::verif_hooks::PoisonHasher;
use crate::{Cache, PutResult};

pub type Seg = SegmentedCache<u8, u8, PoisonHasher, PoisonHasher>;

/// arbitrary state satisfying the SegmentedCache invariant: both segments well formed with
/// capacities >= 1 equal to the configured sizes, key sets disjoint
pub fn any_seg(maxcap: usize) -> (Seg, SegAbs) {
    let pb = any_abs(maxcap, 1);
    let pt = any_abs(maxcap, 1);
    kani::assume(pb.disjoint(&pt));
    let s = Seg::verif_from_parts(build(&pb, PoisonHasher, None), build(&pt, PoisonHasher, None));
    let a = SegAbs { probationary: pb, protected: pt, probationary_size: pb.cap, protected_size: pt.cap };
    (s, a)
}

macro_rules! seg_inv {
    ($s:expr, $wf:expr, $pre:expr, $post:expr) => {
        ck!($wf, "[C03.wf] both segment lists are well-formed chains matching their indexes (nodes migrate between them)");
        ck!($post.probationary.n <= $post.probationary.cap && $post.protected.n <= $post.protected.cap,
            "[C01.cap] each segment stays within its configured bound");
        ck!($post.probationary.cap == $pre.probationary_size && $post.protected.cap == $pre.protected_size
            && $post.probationary_size == $pre.probationary_size && $post.protected_size == $pre.protected_size,
            "[C01.cap] segment capacities stay at their configured sizes");
        ck!(partitioned(&[&$post.probationary, &$post.protected]), "[C01.partition] a key is held in at most one segment");
        ck!($s.len() == $post.probationary.n + $post.protected.n && $s.len() <= $s.cap(), "[C01.len] len() counts the resident entries and never exceeds cap()");
        ck!($s.is_empty() == ($post.probationary.n + $post.protected.n == 0), "[C01.empty] is_empty() iff nothing retained");
        ck!($s.cap() == $pre.probationary_size + $pre.protected_size, "[C01.cap] cap() is the sum of the segment sizes");
    };
}







// One harness for `put`: the three cases share one symbolic run of the real `put`.
#[kani::proof]
#[kani::unwind(6)]
fn seg_put() {
    let (mut s, pre) = any_seg(N);
    let k: u8 = kani::any();
    let v: u8 = kani::any();
    let in_protected = pre.protected.has(k);
    let in_probationary = pre.probationary.has(k);
    let is_new = !in_protected && !in_probationary;

    kani::cover!((in_protected) && (pre.protected.n >= 2), "seg put: protected hit among several");

    kani::cover!((in_probationary) && (pre.protected.n == pre.protected.cap), "seg put: promotion overflows protected");
    kani::cover!((in_probationary) && (pre.protected.n < pre.protected.cap), "seg put: promotion with room");

    kani::cover!((is_new) && (pre.probationary.n == pre.probationary.cap), "seg put: new key, probationary full");
    kani::cover!((is_new) && (pre.probationary.n < pre.probationary.cap), "seg put: new key, room");
    let r = s.put(k, v);
    let (post, wf) = s.verif_check();
    seg_inv!(s, wf, pre, post);
    if in_protected {
        let i = pre.protected.pos(k).unwrap();
        ck!(pr_of(&r) == PR::Update(pre.protected.v[i]), "[C12.result] put on a protected entry returns Update(old)");
        ck!(post.protected.view_eq(&pre.protected.touch(i, Some(v))) && post.probationary == pre.probationary,
            "[C07.refresh][C02.value] a hit on a protected entry only refreshes it (and stores the value)");
    } else if in_probationary {
        let i = pre.probationary.pos(k).unwrap();
        let (epb, ept) = spec_promote(&pre, i, Some(v));
        ck!(pr_of(&r) == PR::Update(pre.probationary.v[i]), "[C12.result][C07.promote] put on a probationary entry returns Update(old): nothing leaves the cache");
        ck!(put_result_truthful(&[&pre.probationary, &pre.protected], &[&post.probationary, &post.protected], k, v, pr_of(&r)),
            "[C12.delta] the retained set changed exactly as the PutResult says");
        ck!(post.protected.view_eq(&ept), "[C07.promote][C02.value] a put hit on a probationary entry promotes it to protected's most-recent end with the new value");
        ck!(post.probationary.view_eq(&epb), "[C07.demote] protected's least-recent entry is demoted to probationary's most-recent end, never evicted");
    } else if is_new {
        let (epb, er) = spec_lru_put(&pre.probationary, k, v);
        ck!(pr_of(&r) == er, "[C12.result][C07.evict] a new key evicts only probationary's least-recent entry, and only when probationary is full");
        ck!(post.probationary.view_eq(&epb) && post.protected == pre.protected, "[C07.enter][C02.value] new keys enter probationary's most-recent end; protected untouched");
        ck!(put_result_truthful(&[&pre.probationary, &pre.protected], &[&post.probationary, &post.protected], k, v, pr_of(&r)),
            "[C12.delta] the retained set changed exactly as the PutResult says");
    }
    s.verif_forget();
}

#[kani::proof]
#[kani::unwind(6)]
fn seg_get() {
    let (mut s, pre) = any_seg(N);
    let k: u8 = kani::any();
    let mutable: bool = kani::any();
    let w: u8 = kani::any();
    kani::cover!(pre.protected.has(k), "seg get: protected hit");
    kani::cover!(pre.probationary.has(k) && pre.protected.n == pre.protected.cap, "seg get: promotion overflows protected");
    kani::cover!(pre.probationary.has(k) && pre.protected.n < pre.protected.cap && mutable, "seg get_mut: promotion with room");
    kani::cover!(!pre.probationary.has(k) && !pre.protected.has(k), "seg get: miss");
    let r = if mutable {
        s.get_mut(&k).map(|x| { let o = *x; *x = w; o })
    } else {
        s.get(&k).copied()
    };
    let (post, wf) = s.verif_check();
    seg_inv!(s, wf, pre, post);
    let nv = if mutable { Some(w) } else { None };
    ck!(r == lookup(&[&pre.probationary, &pre.protected], k), "[C02.lookup] get/get_mut return exactly the stored value, None iff absent");
    if let Some(i) = pre.protected.pos(k) {
        ck!(post.protected.view_eq(&pre.protected.touch(i, nv)) && post.probationary == pre.probationary,
            "[C07.refresh][C02.write] a hit on a protected entry only refreshes it");
    } else if let Some(i) = pre.probationary.pos(k) {
        let (epb, ept) = spec_promote(&pre, i, nv);
        ck!(post.protected.view_eq(&ept), "[C07.promote][C02.write] get/get_mut on a probationary entry promote it to protected's most-recent end");
        ck!(post.probationary.view_eq(&epb), "[C07.demote] protected's least-recent entry is demoted to probationary's most-recent end, never evicted");
    } else {
        ck!(post == pre, "[C13.miss][C07.miss] a miss changes nothing");
    }
    s.verif_forget();
}

#[kani::proof]
#[kani::unwind(6)]
fn seg_readonly() {
    let (mut s, pre) = any_seg(N);
    let k: u8 = kani::any();
    kani::cover!(pre.protected.has(k), "seg peek: protected hit");
    kani::cover!(pre.probationary.has(k), "seg peek: probationary hit");
    kani::cover!(!pre.probationary.has(k) && !pre.protected.has(k), "seg peek: miss");
    let want = lookup(&[&pre.probationary, &pre.protected], k);
    ck!(s.peek(&k).copied() == want, "[C02.lookup] peek returns exactly the stored value, None iff absent");
    ck!(s.peek_mut(&k).map(|x| *x) == want, "[C02.lookup] peek_mut hands out the stored value, None iff absent");
    ck!(s.contains(&k) == want.is_some(), "[C02.lookup] contains agrees with residency");
    ck!(s.peek_lru_from_probationary().map(|(a, b)| (*a, *b)) == pre.probationary.last()
        && s.peek_lru_mut_from_probationary().map(|(a, b)| (*a, *b)) == pre.probationary.last(),
        "[C07.accessors] peek_lru(_mut)_from_probationary name probationary's least-recent entry");
    ck!(s.peek_mru_from_probationary().map(|(a, b)| (*a, *b)) == pre.probationary.first()
        && s.peek_mru_mut_from_probationary().map(|(a, b)| (*a, *b)) == pre.probationary.first(),
        "[C07.accessors] peek_mru(_mut)_from_probationary name probationary's most-recent entry");
    ck!(s.peek_lru_from_protected().map(|(a, b)| (*a, *b)) == pre.protected.last()
        && s.peek_lru_mut_from_protected().map(|(a, b)| (*a, *b)) == pre.protected.last(),
        "[C07.accessors] peek_lru(_mut)_from_protected name protected's least-recent entry");
    ck!(s.peek_mru_from_protected().map(|(a, b)| (*a, *b)) == pre.protected.first()
        && s.peek_mru_mut_from_protected().map(|(a, b)| (*a, *b)) == pre.protected.first(),
        "[C07.accessors] peek_mru(_mut)_from_protected name protected's most-recent entry");
    ck!(s.protected_len() == pre.protected.n && s.probationary_len() == pre.probationary.n
        && s.protected_cap() == pre.protected_size && s.probationary_cap() == pre.probationary_size,
        "[C07.accessors][C01.len] per-segment len/cap accessors report the segment's own numbers");
    let (post, wf) = s.verif_check();
    seg_inv!(s, wf, pre, post);
    ck!(post == pre, "[C13.readonly] peek, peek_mut (no write), contains, per-segment peeks and len/cap accessors leave every segment unchanged");
    s.verif_forget();
}

#[kani::proof]
#[kani::unwind(6)]
fn seg_peek_mut_write() {
    let (mut s, pre) = any_seg(N);
    let k: u8 = kani::any();
    let w: u8 = kani::any();
    kani::assume(pre.protected.has(k) || pre.probationary.has(k));
    kani::cover!(pre.protected.has(k), "seg peek_mut write: protected");
    kani::cover!(pre.probationary.has(k), "seg peek_mut write: probationary");
    *s.peek_mut(&k).unwrap() = w;
    let (post, wf) = s.verif_check();
    seg_inv!(s, wf, pre, post);
    let mut exp = pre;
    if let Some(i) = pre.protected.pos(k) { exp.protected = pre.protected.with_val(i, w); }
    if let Some(i) = pre.probationary.pos(k) { exp.probationary = pre.probationary.with_val(i, w); }
    ck!(post == exp, "[C02.write][C13.readonly] a write through peek_mut lands in that entry; order and everything else unchanged");
    ck!(s.peek(&k).copied() == Some(w), "[C02.write] the written value is what later reads return");
    s.verif_forget();
}

#[kani::proof]
#[kani::unwind(6)]
fn seg_remove_family() {
    let (mut s, pre) = any_seg(N);
    let k: u8 = kani::any();
    let which: u8 = kani::any();
    kani::assume(which < 4);
    kani::cover!(which == 0 && pre.protected.has(k), "seg remove: protected hit");
    kani::cover!(which == 0 && pre.probationary.has(k), "seg remove: probationary hit");
    kani::cover!(which == 1 && pre.probationary.n > 0, "seg remove_lru_from_probationary");
    kani::cover!(which == 2 && pre.protected.n > 0, "seg remove_lru_from_protected");
    kani::cover!(which == 3, "seg purge");
    let mut exp = pre;
    match which {
        0 => {
            let r = s.remove(&k);
            ck!(r == lookup(&[&pre.probationary, &pre.protected], k), "[C02.remove] remove hands back the stored value, None iff absent");
            if let Some(i) = pre.protected.pos(k) { exp.protected = pre.protected.remove_at(i); }
            if let Some(i) = pre.probationary.pos(k) { exp.probationary = pre.probationary.remove_at(i); }
            ck!(!s.contains(&k), "[C02.absent] a removed key is no longer resident");
        }
        1 => {
            let r = s.remove_lru_from_probationary();
            ck!(r == pre.probationary.last(), "[C07.accessors] remove_lru_from_probationary returns probationary's least-recent pair");
            if pre.probationary.n > 0 { exp.probationary = pre.probationary.drop_last(); }
        }
        2 => {
            let r = s.remove_lru_from_protected();
            ck!(r == pre.protected.last(), "[C07.accessors] remove_lru_from_protected returns protected's least-recent pair");
            if pre.protected.n > 0 { exp.protected = pre.protected.drop_last(); }
        }
        _ => {
            s.purge();
            exp.probationary = Abs::empty(pre.probationary.cap);
            exp.protected = Abs::empty(pre.protected.cap);
        }
    }
    let (post, wf) = s.verif_check();
    seg_inv!(s, wf, pre, post);
    ck!(post.probationary.view_eq(&exp.probationary) && post.protected.view_eq(&exp.protected),
        "[C07.remove][C02.map] remove/remove_lru_from_*/purge take out exactly the named entries, order of the rest kept");
    s.verif_forget();
}

#[kani::proof]
#[kani::unwind(6)]
fn seg_put_protected() {
    let (mut s, pre) = any_seg(N);
    let k: u8 = kani::any();
    let v: u8 = kani::any();
    kani::cover!(pre.probationary.has(k), "put_protected: key resident in probationary");
    kani::cover!(pre.protected.has(k), "put_protected: key resident in protected");
    kani::cover!(!pre.probationary.has(k) && !pre.protected.has(k) && pre.protected.n == pre.protected.cap, "put_protected: new key, protected full");
    let r = s.put_protected(k, v);
    let (post, wf) = s.verif_check();
    seg_inv!(s, wf, pre, post);
    ck!(post.protected.val_of(k) == Some(v), "[C07.put_protected][C02.value] put_protected places the key in the protected segment with the value");
    ck!(!post.probationary.has(k), "[C07.put_protected] ... and nowhere else");
    ck!(put_result_truthful(&[&pre.probationary, &pre.protected], &[&post.probationary, &post.protected], k, v, pr_of(&r)),
        "[C12.result][C12.delta][C07.demote] put_protected's PutResult tells the truth about the retained set: a promotion that overflows the protected segment demotes, nothing is evicted silently");
    s.verif_forget();
}

#[kani::proof]
#[kani::unwind(8)]
fn seg_clone_and_drop() {
    let (s, pre) = any_seg(N);
    kani::cover!(pre.protected.n >= 2 && pre.probationary.n >= 1, "seg clone: populated");
    let c = s.clone();
    let cv = c.verif_abs();
    ck!(c.verif_wf(), "[C03.wf][C16.wf] a cloned SegmentedCache is well formed");
    ck!(cv == pre, "[C16.contents][C16.order][C17.maporder][C01.cap] a clone has the same configured sizes, contents, values and recency order in every segment");
    drop(c);
    let post = s.verif_abs();
    ck!(post == pre && s.verif_wf(), "[C16.independent][C03.uaf] dropping the clone leaves the original intact");
    drop(s);
}

#[kani::proof]
#[kani::unwind(6)]
fn seg_builder_sound() {
    let (s, a) = any_seg(N);
    kani::cover!(a.probationary.n == N && a.protected.n == N, "seg builder: both segments full");
    let (b, wf) = s.verif_check();
    ck!(wf && b == a, "[C03.builder] every SegmentedCache state the builder produces is well formed with exactly the intended view");
    s.verif_forget();
}

// kind: proved (both sizes range over all usize)
#[kani::proof]
#[kani::unwind(6)]
fn seg_builder_finalize_contract() {
    let pb: usize = kani::any();
    let pt: usize = kani::any();
    kani::cover!(pb == 0 && pt != 0, "seg ctor: zero probationary");
    kani::cover!(pb != 0 && pt == 0, "seg ctor: zero protected");
    let b = SegmentedCacheBuilder { probationary_size: pb, protected_size: pt, probationary_hasher: Some(PoisonHasher), protected_hasher: Some(PoisonHasher) };
    let r: Result<Seg, CacheError> = b.finalize();
    match r {
        Err(e) => ck!((pb == 0 || pt == 0) && e == CacheError::InvalidSize(0), "[C05.ctor] Err(InvalidSize(0)) exactly when a segment size is 0"),
        Ok(c) => {
            let (a, wf) = c.verif_check();
            ck!(pb != 0 && pt != 0 && wf, "[C05.ctor][C03.wf] construction succeeds exactly for two non-zero sizes");
            ck!(a.probationary == Abs::empty(pb) && a.protected == Abs::empty(pt) && a.probationary_size == pb && a.protected_size == pt,
                "[C05.ctor][C01.cap] both segments are empty with their requested capacities, assigned to the right segment");
            c.verif_forget();
        }
    }
}


// ------------------------------------------------------------------ ownership conservation (C04): drop-tracked payloads,
// the cache is dropped at the end and CBMC's memory-leak check is on (unit K-LEAK)

// tier: thorough (dropping whole composite caches with tracked payloads is expensive for CBMC)
#[kani::proof]
#[kani::unwind(14)]
fn seg_put_leakcheck() {
    use crate::verif_hooks::gen::*;
    let pb = any_tracked_abs(N, 1);
    let pt = any_tracked_abs(N, 1);
    kani::assume(pb.disjoint(&pt) && values_distinct(&[&pb, &pt]));
    reset_drops();
    let mut s = SegmentedCache::verif_from_parts(build_tracked(&pb, PoisonHasher), build_tracked(&pt, PoisonHasher));
    let k: u8 = kani::any();
    let v: u8 = kani::any();
    let which: u8 = kani::any();
    kani::assume(k < 6 && v >= 6 && v < 12 && which < 2);
    let before = ids_of(&[&pb, &pt]);
    kani::assume(before & (1 << v) == 0);
    let hit = pb.has(k) || pt.has(k);
    kani::cover!(which == 0 && pb.has(k) && pt.n == pt.cap, "seg tracked put: promotion overflows protected");
    kani::cover!(which == 0 && !hit && pb.n == pb.cap, "seg tracked put: eviction");
    kani::cover!(which == 1 && pb.has(k) && pt.n == pt.cap, "seg tracked put_protected: promotion overflows protected");
    let created = before | (1 << v) | if hit { 0 } else { 1 << k };
    let r = if which == 0 { s.put(Tk(k), Tv(v)) } else { s.put_protected(Tk(k), Tv(v)) };
    drop(r);
    if hit {
        // the argument key equals a stored key: exactly one of the two objects is dropped, the other stays
        ck!(drops(k) == 1, "[C04.once] on an update the surplus key object is dropped exactly once");
        set_drops(k, 0);
    }
    let (post, wf) = s.verif_check();
    ck!(wf, "[C03.wf] segments well formed after put with heap-tracked payloads");
    ck!(conserved(created, ids_of(&[&post.probationary, &post.protected])), "[C04.once] after put/put_protected every key and value is retained, or was handed back, or was dropped exactly once (never twice, never while retained)");
    drop(s);
    ck!(conserved(created, 0), "[C04.drop] dropping the cache releases every retained key and value exactly once");
}

// ------------------------------------------------------------------ ownership with heap-owning values (C04), cheap variant:
// V = Box<u8>.  Every value is its own heap object, so a value that is dropped twice, or dropped while the caller
// still holds it (or while it is still reachable through the cache), is a double free / use after free that CBMC
// reports by itself; no drop counters, and the cache is not dropped (leaks are K-LEAK's business).
type SegB = SegmentedCache<u8, alloc::boxed::Box<u8>, PoisonHasher, PoisonHasher>;

#[kani::proof]
#[kani::unwind(6)]
fn seg_put_boxed_values() {
    let pb = any_abs(N, 1);
    let pt = any_abs(N, 1);
    kani::assume(pb.disjoint(&pt));
    let mk = |a: &Abs| RawLRU::<u8, alloc::boxed::Box<u8>, DefaultEvictCallback, PoisonHasher>::verif_from_parts(a.cap, PoisonHasher, None, a.n, |i| (a.k[i], alloc::boxed::Box::new(a.v[i])));
    let mut s: SegB = SegmentedCache::verif_from_parts(mk(&pb), mk(&pt));
    let k: u8 = kani::any();
    let v: u8 = kani::any();
    let protected_entry: bool = kani::any();
    kani::cover!(pb.has(k) && pt.n == pt.cap, "seg boxed put: promotion overflows protected");
    kani::cover!(!pb.has(k) && !pt.has(k) && pb.n == pb.cap, "seg boxed put: eviction");
    let r = if protected_entry { s.put_protected(k, alloc::boxed::Box::new(v)) } else { s.put(k, alloc::boxed::Box::new(v)) };
    // read what came back, then release it: it must still be alive, and must not be freed a second time
    let back = match &r {
        PutResult::Put => None,
        PutResult::Update(o) => Some(**o),
        PutResult::Evicted { value, .. } => Some(**value),
        PutResult::EvictedAndUpdate { update, .. } => Some(**update),
    };
    let pre = SegAbs { probationary: pb, protected: pt, probationary_size: pb.cap, protected_size: pt.cap };
    if let Some(x) = lookup(&[&pb, &pt], k) {
        ck!(back == Some(x), "[C04.handback][C12.result] the old value handed back by an update is the stored one, still alive");
    }
    drop(r);
    let (post, wf) = s.verif_check();
    ck!(wf, "[C03.wf] segments well formed with heap-owning values");
    // every retained value is still readable (a value freed while retained is a use after free here)
    ck!(lookup(&[&post.probationary, &post.protected], k) == Some(v), "[C04.alive][C02.value] the stored value is alive and is the one just put");
    let _ = pre;
    s.verif_forget();
}
