// K-SKETCH: contracts of CountMinSketch::{increment, estimate, reset, clear} (std and no_std build) on the
// real closure-using bodies.  These are the contracts unit V-TLFU assumes (external_body) in Verus.
// Bounded in row width (2, 4 or 8 counters); complete in the hash, the seeds and the counter contents.
// Non-blocking check: Kani's `assert!` assumes its condition afterwards, so the first failing conjunct of a contract
// would hide every later one on the same path (and with it the verdicts of the other properties that harness serves).
// `ck!` performs the check on a nondeterministically chosen side branch, so every conjunct is reported independently.
macro_rules! ck {
    ($c:expr, $m:literal) => {
        if kani::any::<bool>() {
            assert!($c, $m);
        }
    };
    ($c:expr) => {
        assert!($c)
    };
}

use super::*;
use crate::lfu::tinylfu::sketch::CountMinRow;
use alloc::vec::Vec;

pub const MAXBYTES: usize = 4;

pub struct SkAbs {
    pub width: usize,
    pub c: [[u8; 2 * MAXBYTES]; 4],
}

pub fn view(s: &CountMinSketch) -> SkAbs {
    let width = (s.verif_mask() + 1) as usize;
    let mut c = [[0u8; 2 * MAXBYTES]; 4];
    let mut r = 0;
    while r < 4 {
        let mut i = 0;
        while i < 2 * MAXBYTES {
            if i < width {
                c[r][i] = s.verif_row(r).verif_ctr(i);
            }
            i += 1;
        }
        r += 1;
    }
    SkAbs { width, c }
}

/// arbitrary sketch: width in {2,4,8} counters, arbitrary counter bytes, arbitrary seeds
pub fn any_sketch() -> CountMinSketch {
    let logw: u8 = kani::any();
    kani::assume(logw >= 1 && logw <= 3);
    let width: usize = 1 << logw;
    let nbytes = width / 2;
    let mk = || {
        // rows are allocated zeroed (one allocation, no growth) and then overwritten with arbitrary bytes
        let mut row = CountMinRow::new(nbytes as u64);
        let bytes: [u8; MAXBYTES] = kani::any();
        let mut i = 0;
        while i < MAXBYTES {
            if i < nbytes {
                row.verif_set_byte(i, bytes[i]);
            }
            i += 1;
        }
        row
    };
    CountMinSketch::verif_from_parts([mk(), mk(), mk(), mk()], kani::any(), (width - 1) as u64)
}

/// pos_r(h) "is whatever the build computes": it is read off the real `increment` run on an all-zero
/// sketch of the same shape and seeds: the one counter of row r that becomes 1.
pub fn positions(s: &CountMinSketch, h: u64) -> [usize; 4] {
    let mut z = s.verif_zero_like();
    z.increment(h);
    let v = view(&z);
    let mut p = [usize::MAX; 4];
    let mut r = 0;
    while r < 4 {
        let mut hits = 0;
        let mut i = 0;
        while i < 2 * MAXBYTES {
            if i < v.width && v.c[r][i] != 0 {
                hits += 1;
                p[r] = i;
                ck!(v.c[r][i] == 1, "[C11.sketch] one increment of a zero sketch raises a counter to exactly 1");
            }
            i += 1;
        }
        ck!(hits == 1, "[C11.sketch] increment touches exactly one counter per row, inside the row");
        r += 1;
    }
    p
}

fn sat15(c: u8) -> u8 {
    if c < 15 { c + 1 } else { 15 }
}

#[kani::proof]
#[kani::unwind(10)]
fn sketch_increment() {
    let mut s = any_sketch();
    let h: u64 = kani::any();
    let pre = view(&s);
    let p = positions(&s, h);
    kani::cover!(pre.c[0][p[0]] == 15, "sketch increment: a saturated counter");
    kani::cover!(h == u64::MAX, "sketch increment: hash u64::MAX");
    kani::cover!(h == 0, "sketch increment: hash 0");
    s.increment(h);
    let post = view(&s);
    ck!(post.width == pre.width, "[C11.sketch] increment keeps the sketch's shape");
    let mut r = 0;
    while r < 4 {
        let mut i = 0;
        while i < 2 * MAXBYTES {
            if i < pre.width {
                let want = if i == p[r] { sat15(pre.c[r][i]) } else { pre.c[r][i] };
                ck!(post.c[r][i] == want, "[C11.sketch][C11.bump] increment adds one (saturating at 15) to counter pos_r(h) of every row and leaves EVERY other counter unchanged");
            }
            i += 1;
        }
        r += 1;
    }
}

#[kani::proof]
#[kani::unwind(10)]
fn sketch_estimate() {
    let s = any_sketch();
    let h: u64 = kani::any();
    let pre = view(&s);
    let p = positions(&s, h);
    kani::cover!(h == u64::MAX, "sketch estimate: hash u64::MAX");
    let e = s.estimate(h);
    let mut m = 255u8;
    let mut r = 0;
    while r < 4 {
        if pre.c[r][p[r]] < m {
            m = pre.c[r][p[r]];
        }
        r += 1;
    }
    ck!(e == m as u64 && e <= 15, "[C11.sketch][C11.min] estimate is the minimum over the four rows of counter pos_r(h), at most 15");
    let post = view(&s);
    let mut r = 0;
    while r < 4 {
        let mut i = 0;
        while i < 2 * MAXBYTES {
            ck!(post.c[r][i] == pre.c[r][i], "[C11.sketch][C13.readonly] estimate does not change the sketch");
            i += 1;
        }
        r += 1;
    }
}

#[kani::proof]
#[kani::unwind(10)]
fn sketch_reset_clear() {
    let mut s = any_sketch();
    let pre = view(&s);
    let clear: bool = kani::any();
    kani::cover!(!clear && pre.c[3][1] == 15 && pre.c[3][0] == 1, "sketch reset: odd and saturated neighbours");
    if clear { s.clear() } else { s.reset() }
    let post = view(&s);
    ck!(post.width == pre.width, "[C11.sketch] reset/clear keep the sketch's shape");
    let mut r = 0;
    while r < 4 {
        let mut i = 0;
        while i < 2 * MAXBYTES {
            if i < pre.width {
                let want = if clear { 0 } else { pre.c[r][i] / 2 };
                ck!(post.c[r][i] == want, "[C11.sketch][C11.halve] reset halves every counter (rounding down, no bleed between neighbours); clear zeroes every counter");
            }
            i += 1;
        }
        r += 1;
    }
}

// the byte-level fact behind reset, for all 256 bytes (loop-free, complete)
// kind: proved
#[kani::proof]
fn row_halving_mask_all_bytes() {
    let b: u8 = kani::any();
    let h = (b >> 1) & 0x77;
    ck!((h & 0x0f) == (b & 0x0f) / 2 && (h >> 4) == (b >> 4) / 2, "[C11.halve] (b >> 1) & 0x77 halves both nibbles of every byte");
}


// configs: nostd (the std constructor seeds itself from SystemTime + StdRng, which Kani cannot execute; the sizing
// arithmetic is the same code and is also proved for all widths by Verus unit V-POW)
#[kani::proof]
#[kani::unwind(12)]
fn sketch_new_small_sizes() {
    let size: u64 = kani::any();
    kani::assume(size <= 8);
    kani::cover!(size == 1, "sketch of size 1");
    kani::cover!(size == 0, "sketch of size 0");
    match CountMinSketch::new(size) {
        Ok(mut s) => {
            let v = view(&s);
            ck!(size >= 1 && v.width >= 2 && (v.width & (v.width - 1)) == 0 && v.width as u64 >= size, "[C05.ctor][C11.width] every accepted size gives a power-of-two number (>= 2, >= size) of counters per row");
            let h: u64 = kani::any();
            s.increment(h);
            let e = s.estimate(h);
            ck!(e == 1, "[C05.ops][C11.min] one increment of a fresh sketch is estimated as 1");
            s.reset();
            s.clear();
            ck!(s.estimate(h) == 0, "[C11.clear] a cleared sketch estimates 0");
        }
        Err(_) => ck!(size == 0, "[C05.ctor] only size 0 is rejected"),
    }
}

// negative control: MUST fail (see harness_raw.rs)
#[kani::proof]
#[kani::unwind(10)]
fn negctl_increment_is_never_saturated() {
    let mut s = any_sketch();
    let h: u64 = kani::any();
    let before = s.estimate(h);
    s.increment(h);
    ck!(s.estimate(h) == before + 1, "[negctl] increment always raises the estimate by one (false: counters saturate at 15)");
}
