// K-CTOR (LFU part): constructor / builder contracts for TinyLFU, CountMinSketch and the doorkeeper (C05),
// and the establishment of the invariants the Verus units assume (Bloom::inv, CountMinSketch::inv).
// Non-blocking check: Kani's `assert!` assumes its condition afterwards, so the first failing conjunct of a contract
// would hide every later one on the same path (and with it the verdicts of the other properties that harness serves).
// `ck!` performs the check on a nondeterministically chosen side branch, so every conjunct is reported independently.
macro_rules! ck {
    ($c:expr, $m:literal) => {
        if kani::any::<bool>() {
            assert!($c, $m);
        }
    };
    ($c:expr) => {
        assert!($c)
    };
}

use super::*;
use crate::verif_hooks::ByteKeyHasher;

/// Bloom::new establishes the representation invariant that unit V-BLOOM requires (DESIGN.md 3.5):
/// entries <= 2^32, false-positive ratio in (0,1).  get_size loops at most 64 times (unwinding assertion on).
// kind: proved (all f64 ratios in (0,1) and all entry counts up to 2^32; float functions are CBMC's models)
#[kani::proof]
#[kani::unwind(66)]
#[kani::solver(cadical)]
fn bloom_new_establishes_inv() {
    let entries: usize = kani::any();
    let fp: f64 = kani::any();
    kani::assume(entries >= 1 && entries <= (1usize << 32));
    kani::assume(fp > 0.0 && fp < 1.0);
    let b = crate::lfu::tinylfu::bloom::Bloom::new(entries, fp);
    let (nbits, mask, shift, locs, exp) = b.verif_config();
    ck!(nbits >= 512 && mask == nbits - 1 && (nbits & mask) == 0, "[C05.bloom] the bit set has a power-of-two number of bits (>= 512) and mask = bits - 1");
    ck!(shift == 64 - exp && nbits == 1u64 << exp, "[C05.bloom] shift = 64 - log2(bits)");
    ck!(shift >= 12 && shift < 64, "[C05.bloom] the hash split uses a shift in 12..64 (at most 2^52 bits)");
    // the probe count is checked separately (bloom_new_probe_count) under an explicit, weak contract for `ln`
    let _ = locs;
    core::mem::forget(b);
}

// kind: proved (all sizes, sample counts and f64 ratios; result variant only, allocation sizes excluded by the Err/Ok split below)
#[kani::proof]
#[kani::unwind(4)]
fn tinylfu_builder_validates() {
    let size: usize = kani::any();
    let samples: usize = kani::any();
    let fp: f64 = kani::any();
    kani::cover!(fp != fp, "builder: NaN ratio");
    kani::cover!(samples == 0, "builder: zero samples");
    // only the validation is exercised here: arguments that pass validation would go on to allocate
    // size/2-byte rows and a samples-derived bit set, which is not run symbolically (see the other harnesses)
    let bad_fp = !(fp > 0.0 && fp < 1.0);
    kani::assume(samples == 0 || bad_fp || size == 0);
    let r = TinyLFUBuilder::<u8, ByteKeyHasher>::with_hasher(ByteKeyHasher).set_size(size).set_samples(samples).set_false_positive_ratio(fp).finalize();
    match r {
        Err(TinyLFUError::InvalidSamples(s)) => ck!(samples == 0 && s == 0, "[C05.ctor] InvalidSamples exactly for zero samples"),
        Err(TinyLFUError::InvalidFalsePositiveRatio(_)) => ck!(samples != 0 && bad_fp, "[C05.ctor] InvalidFalsePositiveRatio exactly for ratios outside (0,1) or NaN"),
        Err(TinyLFUError::InvalidCountMinWidth(w)) => ck!(samples != 0 && !bad_fp && size == 0 && w == 0, "[C05.ctor] InvalidCountMinWidth exactly for size 0"),
        Ok(_) => ck!(false, "[C05.ctor] invalid arguments (zero samples, ratio outside (0,1) or NaN, size 0) are rejected"),
    }
}

#[kani::proof]
#[kani::unwind(10)]
fn tinylfu_clone_is_identical_then_independent() {
    // structurally minimal estimator (rows of 2 counters, one doorkeeper word, one probe) with arbitrary contents
    let samples: usize = kani::any();
    let w: usize = kani::any();
    kani::assume(samples >= 1 && samples <= 3 && w < samples);
    kani::cover!(w > 0, "clone taken inside a sample window");
    let mut t: TinyLFU<u8, ByteKeyHasher> = TinyLFU::verif_small(kani::any(), 1, kani::any(), kani::any(), 1, samples, w, ByteKeyHasher);
    let pre = t.verif_abs();
    let mut c = t.clone();
    ck!(c.verif_abs() == pre, "[C16.estimator] a cloned TinyLFU has the same window position, sample size, sketch counters and doorkeeper bits");
    // the same access recorded on both yields the same state again; the other copy is not affected
    let h: u64 = kani::any();
    c.increment_hashed_key(h);
    ck!(t.verif_abs() == pre, "[C16.independent] recording an access on the clone does not affect the original");
    t.increment_hashed_key(h);
    ck!(t.verif_abs() == c.verif_abs(), "[C16.estimator] the same operation applied to both copies produces identical estimator states");
    drop(c);
    ck!(t.estimate_hashed_key(h) <= 16, "[C16.independent][C03.uaf] the original stays usable after the clone is dropped");
    core::mem::forget(t);
}


// The batch entry points are folds of the single-step ones, whose contracts unit V-TLFU proves (Verus cannot take the
// `iter().for_each(|k| self.increment..)` closure).  Relational contract: the same accesses recorded in one batch and
// one by one from the same arbitrary state give the same estimator state -- in particular the window reset happens at
// the same point inside the batch.  Added after the independently seeded change C11-5 (one late reset per batch) was missed.
#[kani::proof]
#[kani::unwind(10)]
fn tinylfu_batch_is_fold_of_single() {
    let samples: usize = kani::any();
    let w: usize = kani::any();
    kani::assume(samples >= 1 && samples <= 3 && w < samples);
    let mut t: TinyLFU<u8, ByteKeyHasher> = TinyLFU::verif_small(kani::any(), 1, kani::any(), kani::any(), 1, samples, w, ByteKeyHasher);
    let mut c = t.clone();
    let hs: [u64; 3] = kani::any();
    let l: usize = kani::any();
    kani::assume(l <= 3);
    kani::cover!(l == 3 && w + 3 > samples, "batch crosses the sample-window boundary");
    kani::cover!(l == 3 && samples == 1, "batch spans several windows");
    kani::cover!(l == 0, "empty batch");
    t.increment_hashed_keys(&hs[..l]);
    let mut i = 0;
    while i < 3 {
        if i < l {
            c.increment_hashed_key(hs[i]);
        }
        i += 1;
    }
    ck!(t.verif_abs() == c.verif_abs(), "[C11.batch] increment_hashed_keys records its accesses exactly as the same calls of increment_hashed_key, one by one (resets included)");
    core::mem::forget(t);
    core::mem::forget(c);
}

#[kani::proof]
#[kani::unwind(10)]
fn tinylfu_key_batch_is_fold_of_single() {
    let samples: usize = kani::any();
    let w: usize = kani::any();
    kani::assume(samples >= 1 && samples <= 2 && w < samples);
    let mut t: TinyLFU<u8, ByteKeyHasher> = TinyLFU::verif_small(kani::any(), 1, kani::any(), kani::any(), 1, samples, w, ByteKeyHasher);
    let mut c = t.clone();
    let (a, b): (u8, u8) = kani::any();
    kani::cover!(w + 2 > samples, "key batch crosses the sample-window boundary");
    t.increment_keys(&[&a, &b]);
    c.increment(&a);
    c.increment(&b);
    ck!(t.verif_abs() == c.verif_abs(), "[C11.batch] increment_keys records its accesses exactly as the same calls of increment, one by one (resets included)");
    core::mem::forget(t);
    core::mem::forget(c);
}

/// Contract assumed for the natural logarithm (CBMC's own model of `log` is nondeterministic):
/// for 0 < x < 1 the result is negative, not NaN, and not below ln(smallest positive f64) = -744.44...
fn stub_ln(x: f64) -> f64 {
    let r: f64 = kani::any();
    kani::assume(!(x > 0.0 && x < 1.0) || (r < 0.0 && r >= -745.0));
    r
}

// kind: proved (all entry counts 1..=2^32 and all ratios in (0,1), relative to the stated contract of `ln`)
#[kani::proof]
#[kani::unwind(66)]
#[kani::stub(crate::polyfill::ln, stub_ln)]
#[kani::solver(cadical)]
fn bloom_new_probe_count() {
    let entries: usize = kani::any();
    let fp: f64 = kani::any();
    kani::assume(entries >= 1 && entries <= (1usize << 32));
    kani::assume(fp > 0.0 && fp < 1.0);
    let b = crate::lfu::tinylfu::bloom::Bloom::new(entries, fp);
    let (_nbits, _mask, shift, locs, _exp) = b.verif_config();
    ck!(locs >= 1, "[C05.bloom][C11.locs] every ratio in (0,1) gives the doorkeeper at least one probe position (otherwise it would claim to contain every key)");
    ck!(locs < 2048, "[C05.bloom][C11.locs] ... and fewer than 2048 (the probe arithmetic h + i*l cannot overflow)");
    ck!(shift >= 12, "[C05.bloom] at most 2^52 bits");
    core::mem::forget(b);
}
