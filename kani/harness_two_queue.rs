// K-2Q: TwoQueueCache contracts (C08, and C01/C02/C03/C05/C12/C13/C14 for this cache type).
// Non-blocking check: Kani's `assert!` assumes its condition afterwards, so the first failing conjunct of a contract
// would hide every later one on the same path (and with it the verdicts of the other properties that harness serves).
// `ck!` performs the check on a nondeterministically chosen side branch, so every conjunct is reported independently.
macro_rules! ck {
    ($c:expr, $m:literal) => {
        if kani::any::<bool>() {
            assert!($c, $m);
        }
    };
    ($c:expr) => {
        assert!($c)
    };
}

use super::*;
use crate::verif_hooks::gen::{any_abs, build, N};
use crate::verif_hooks::spec::*;
use crate::verif_hooks::PoisonHasher;
use crate::{Cache, PutResult};

pub type Tq = TwoQueueCache<u8, u8, PoisonHasher, PoisonHasher, PoisonHasher>;

/// Arbitrary state satisfying the 2Q invariant.  A superset of what the constructors produce:
/// size in 1..=N, quota in 0..=size (ratio 0.0 .. 1.0, quotas that floor to 0), ghost bound in 1..=size.
pub fn any_tq() -> (Tq, TqAbs) {
    let size: usize = kani::any();
    let quota: usize = kani::any();
    kani::assume(size >= 1 && size <= N && quota <= size);
    let recent = any_abs(N, 1);
    let frequent = any_abs(N, 1);
    let ghost = any_abs(N, 1);
    kani::assume(recent.cap == size && frequent.cap == size && ghost.cap <= size);
    kani::assume(recent.n + frequent.n <= size);
    kani::assume(recent.disjoint(&frequent) && recent.disjoint(&ghost) && frequent.disjoint(&ghost));
    let c = Tq::verif_from_parts(size, quota, build(&recent, PoisonHasher, None), build(&frequent, PoisonHasher, None), build(&ghost, PoisonHasher, None));
    (c, TqAbs { size, recent_size: quota, recent, frequent, ghost })
}

macro_rules! tq_inv {
    ($c:expr, $wf:expr, $pre:expr, $post:expr) => {
        ck!($wf, "[C03.wf] recent, frequent and ghost lists are well-formed chains matching their indexes (nodes migrate between them)");
        ck!($post.recent.n + $post.frequent.n <= $post.size, "[C01.cap] resident entries (recent + frequent) never exceed cap()");
        ck!($post.ghost.n <= $post.ghost.cap, "[C01.cap] the ghost list stays within its bound");
        ck!($post.size == $pre.size && $post.recent_size == $pre.recent_size && $post.recent.cap == $pre.size
            && $post.frequent.cap == $pre.size && $post.ghost.cap == $pre.ghost.cap, "[C01.cap] configured sizes never change");
        ck!(partitioned(&[&$post.recent, &$post.frequent, &$post.ghost]), "[C01.partition] a key is held in at most one of recent / frequent / ghost");
        ck!($c.len() == $post.recent.n + $post.frequent.n && $c.cap() == $pre.size, "[C01.len] len() counts the resident entries, cap() is the configured size");
        ck!($c.is_empty() == ($post.recent.n + $post.frequent.n + $post.ghost.n == 0), "[C01.empty] is_empty() iff nothing (resident or ghost) is retained");
    };
}

/// victim choice of C08 when the cache is full: recent's last if recent is over quota (`at quota` also
/// counts when `at_quota_counts`), otherwise frequent's last, falling back to whichever queue is non-empty.
/// Returns true when the victim comes from the recent queue.
fn victim_from_recent(pre: &TqAbs, at_quota_counts: bool) -> bool {
    let over = if at_quota_counts { pre.recent.n >= pre.recent_size } else { pre.recent.n > pre.recent_size };
    if over {
        pre.recent.n > 0
    } else {
        pre.frequent.n == 0
    }
}









// One harness for `put` (CBMC executes every branch of the real `put` whatever the key's location is assumed
// to be, so the four cases share one run); the postcondition is selected by where the key was in the pre-state.
#[kani::proof]
#[kani::unwind(6)]
fn tq_put() {
    let (mut c, pre) = any_tq();
    let k: u8 = kani::any();
    let v: u8 = kani::any();
    let full = pre.recent.n + pre.frequent.n >= pre.size;
    let in_frequent = pre.frequent.has(k);
    let in_recent = pre.recent.has(k);
    let in_ghost = pre.ghost.has(k);
    let is_new = !in_frequent && !in_recent && !in_ghost;

    kani::cover!((in_frequent) && (pre.frequent.n >= 2), "2q put: frequent hit among several [N>=2]");

    kani::cover!((in_recent) && (pre.recent.n >= 2), "2q put: recent hit among several [N>=2]");
    kani::cover!((in_recent) && (pre.recent.n + pre.frequent.n == pre.size), "2q put: recent hit in a full cache");

    kani::cover!((in_ghost) && (!full), "2q ghost hit: cache has room");
    kani::cover!((in_ghost) && (full && pre.recent.n > pre.recent_size), "2q ghost hit: full, recent over quota");
    kani::cover!((in_ghost) && (full && pre.recent.n <= pre.recent_size && pre.frequent.n > 0), "2q ghost hit: full, victim from frequent");
    kani::cover!((in_ghost) && (full && pre.recent.n <= pre.recent_size && pre.frequent.n == 0), "2q ghost hit: full, frequent empty (fallback to recent)");
    kani::cover!((in_ghost) && (full && pre.ghost.n == pre.ghost.cap && pre.ghost.n >= 2), "2q ghost hit: full and ghost full [N>=2]");

    kani::cover!((is_new) && (!full), "2q new key: room");
    kani::cover!((is_new) && (full && pre.recent.n >= pre.recent_size && pre.recent.n > 0), "2q new key: full, victim from recent");
    kani::cover!((is_new) && (full && pre.recent.n < pre.recent_size), "2q new key: full, victim from frequent");
    kani::cover!((is_new) && (full && pre.recent.n == 0 && pre.recent_size == 0), "2q new key: full, quota 0 and recent empty (fallback to frequent)");
    kani::cover!((is_new) && (full && pre.ghost.n == pre.ghost.cap), "2q new key: full and ghost full");
    let r = c.put(k, v);
    let (post, wf) = c.verif_check();
    tq_inv!(c, wf, pre, post);
    if in_frequent {
        let i = pre.frequent.pos(k).unwrap();
        ck!(pr_of(&r) == PR::Update(pre.frequent.v[i]), "[C12.result] put on a frequent entry returns Update(old)");
        ck!(post.frequent.view_eq(&pre.frequent.touch(i, Some(v))) && post.recent == pre.recent && post.ghost == pre.ghost,
            "[C08.frequent][C02.value] put on a frequent entry refreshes it with the new value; nothing else changes");
    } else if in_recent {
        let i = pre.recent.pos(k).unwrap();
        ck!(pr_of(&r) == PR::Update(pre.recent.v[i]), "[C12.result] put on a recent entry returns Update(old)");
        ck!(post.recent.view_eq(&pre.recent.remove_at(i)) && post.frequent.view_eq(&pre.frequent.push_front(k, v)) && post.ghost == pre.ghost,
            "[C08.promote][C02.value] a second access by put moves the entry from recent to the front of frequent with the new value");
    } else if in_ghost {
        let gi = pre.ghost.pos(k).unwrap();
        let old = pre.ghost.v[gi];
        let ghost_wo_k = pre.ghost.remove_at(gi);
        ck!(put_result_truthful(&[&pre.recent, &pre.frequent, &pre.ghost], &[&post.recent, &post.frequent, &post.ghost], k, v, pr_of(&r)),
            "[C12.result][C12.delta] a put on a ghost key reports Update(old) (or EvictedAndUpdate when the ghost list overflowed) and nothing else leaves");
        if !full {
            ck!(pr_of(&r) == PR::Update(old), "[C12.result][C08.revive] reviving a ghost returns Update(old)");
            ck!(post.frequent.view_eq(&pre.frequent.push_front(k, v)) && post.recent == pre.recent && post.ghost.view_eq(&ghost_wo_k),
                "[C08.revive][C02.value] a put on a ghost key revives it directly into the front of frequent");
        } else {
            let from_recent = victim_from_recent(&pre, false);
            let (vk, vv) = if from_recent { pre.recent.last().unwrap() } else { pre.frequent.last().unwrap() };
            let (er, ef) = if from_recent { (pre.recent.drop_last(), pre.frequent) } else { (pre.recent, pre.frequent.drop_last()) };
            ck!(post.recent.view_eq(&er) && post.frequent.view_eq(&ef.push_front(k, v)),
                "[C08.victim][C08.revive] full cache: the victim is recent's LRU if recent is over quota, else frequent's LRU (falling back to the non-empty queue); the ghost key is revived into the front of frequent");
            ck!(post.ghost.first() == Some((vk, vv)) && !post.ghost.has(k), "[C08.ghost] the victim becomes the most recent ghost; the revived key is no longer a ghost");
            match pr_of(&r) {
                PR::Update(o) => ck!(o == old && post.ghost.view_eq(&ghost_wo_k.push_front(vk, vv)), "[C08.ghost][C12.result] ghost list = old ghosts minus the revived key, plus the victim at the front"),
                PR::EvictedAndUpdate(ek, ev, o) => {
                    // the ghost list overflowed before the revived key was taken out: it dropped its own least-recent entry
                    let gl = pre.ghost.last().unwrap();
                    ck!(o == old && (ek, ev) == gl && pre.ghost.n == pre.ghost.cap,
                        "[C08.ghost][C12.result] only an overflowing ghost list drops an entry, and then its own least-recent one");
                    let gj = ghost_wo_k.pos(ek).unwrap();
                    ck!(post.ghost.view_eq(&ghost_wo_k.remove_at(gj).push_front(vk, vv)), "[C08.ghost] remaining ghosts keep their order");
                }
                _ => ck!(false, "[C12.result] a put on a ghost key is an update"),
            }
        }
    } else if is_new {
        ck!(put_result_truthful(&[&pre.recent, &pre.frequent, &pre.ghost], &[&post.recent, &post.frequent, &post.ghost], k, v, pr_of(&r)),
            "[C12.result][C12.delta] a put of a new key reports Put, or Evicted with the ghost entry that was dropped; nothing else leaves");
        ck!(post.recent.first() == Some((k, v)), "[C08.enter][C02.value] a key seen once lives at the front of the recent queue");
        if !full {
            ck!(pr_of(&r) == PR::Put && post.recent.view_eq(&pre.recent.push_front(k, v)) && post.frequent == pre.frequent && post.ghost == pre.ghost,
                "[C08.enter][C12.result] with room nothing else changes and the result is Put");
        } else {
            let from_recent = victim_from_recent(&pre, true);
            let (vk, vv) = if from_recent { pre.recent.last().unwrap() } else { pre.frequent.last().unwrap() };
            let (er, ef) = if from_recent { (pre.recent.drop_last(), pre.frequent) } else { (pre.recent, pre.frequent.drop_last()) };
            ck!(post.recent.view_eq(&er.push_front(k, v)) && post.frequent.view_eq(&ef),
                "[C08.victim] full cache: the victim is recent's LRU if recent is at or over quota, else frequent's LRU, falling back to the non-empty queue");
            let (eg, egr) = spec_lru_put(&pre.ghost, vk, vv);
            ck!(post.ghost.view_eq(&eg) && pr_of(&r) == egr, "[C08.ghost][C12.result] the victim becomes the most recent ghost; an overflowing ghost list drops its own least-recent entry, which is reported");
        }
    }
    c.verif_forget();
}

#[kani::proof]
#[kani::unwind(6)]
fn tq_get() {
    let (mut c, pre) = any_tq();
    let k: u8 = kani::any();
    let mutable: bool = kani::any();
    let w: u8 = kani::any();
    kani::cover!(pre.frequent.has(k), "2q get: frequent hit");
    kani::cover!(pre.recent.has(k) && mutable, "2q get_mut: recent hit");
    kani::cover!(pre.recent.has(k) && !mutable, "2q get: recent hit");
    kani::cover!(pre.ghost.has(k), "2q get: ghost key");
    kani::cover!(!pre.recent.has(k) && !pre.frequent.has(k) && !pre.ghost.has(k), "2q get: miss");
    let r = if mutable { c.get_mut(&k).map(|x| { let o = *x; *x = w; o }) } else { c.get(&k).copied() };
    let (post, wf) = c.verif_check();
    tq_inv!(c, wf, pre, post);
    let nv = if mutable { Some(w) } else { None };
    ck!(r == lookup(&[&pre.recent, &pre.frequent], k), "[C02.lookup] get/get_mut return exactly the stored value of a resident key; ghosts and absent keys give None");
    if let Some(i) = pre.frequent.pos(k) {
        ck!(post.frequent.view_eq(&pre.frequent.touch(i, nv)) && post.recent == pre.recent && post.ghost == pre.ghost, "[C08.frequent][C02.write] a hit on a frequent entry refreshes it");
    } else if let Some(i) = pre.recent.pos(k) {
        let nvv = match nv { Some(x) => x, None => pre.recent.v[i] };
        ck!(post.recent.view_eq(&pre.recent.remove_at(i)) && post.frequent.view_eq(&pre.frequent.push_front(k, nvv)) && post.ghost == pre.ghost,
            "[C08.promote][C02.write] a second access by get/get_mut moves the entry from recent to the front of frequent");
    } else {
        ck!(post == pre, "[C13.miss][C08.miss] a miss (or a ghost key) changes nothing");
    }
    c.verif_forget();
}

#[kani::proof]
#[kani::unwind(6)]
fn tq_readonly() {
    let (mut c, pre) = any_tq();
    let k: u8 = kani::any();
    kani::cover!(pre.frequent.has(k), "2q peek: frequent hit");
    kani::cover!(pre.recent.has(k), "2q peek: recent hit");
    kani::cover!(pre.ghost.has(k), "2q peek: ghost key");
    let want = lookup(&[&pre.recent, &pre.frequent], k);
    ck!(c.peek(&k).copied() == want, "[C02.lookup] peek returns exactly the stored value of a resident key, None otherwise");
    ck!(c.peek_mut(&k).map(|x| *x) == want, "[C02.lookup] peek_mut hands out the stored value of a resident key, None otherwise");
    ck!(c.contains(&k) == want.is_some(), "[C02.lookup] contains agrees with residency (a ghost is not resident)");
    ck!(c.recent_len() == pre.recent.n && c.frequent_len() == pre.frequent.n && c.ghost_len() == pre.ghost.n, "[C01.len] per-queue len accessors report the queue's own length");
    let (post, wf) = c.verif_check();
    tq_inv!(c, wf, pre, post);
    ck!(post == pre, "[C13.readonly] peek, peek_mut (no write), contains, len/cap and per-queue len accessors leave all three queues unchanged");
    c.verif_forget();
}

#[kani::proof]
#[kani::unwind(6)]
fn tq_peek_mut_write() {
    let (mut c, pre) = any_tq();
    let k: u8 = kani::any();
    let w: u8 = kani::any();
    kani::assume(pre.recent.has(k) || pre.frequent.has(k));
    *c.peek_mut(&k).unwrap() = w;
    let (post, wf) = c.verif_check();
    tq_inv!(c, wf, pre, post);
    let mut exp = pre;
    if let Some(i) = pre.frequent.pos(k) { exp.frequent = pre.frequent.with_val(i, w); }
    if let Some(i) = pre.recent.pos(k) { exp.recent = pre.recent.with_val(i, w); }
    ck!(post == exp && c.peek(&k).copied() == Some(w), "[C02.write][C13.readonly] a write through peek_mut lands in that entry; order and everything else unchanged");
    c.verif_forget();
}

#[kani::proof]
#[kani::unwind(6)]
fn tq_remove_purge() {
    let (mut c, pre) = any_tq();
    let k: u8 = kani::any();
    let purge: bool = kani::any();
    kani::cover!(!purge && pre.frequent.has(k), "2q remove: frequent");
    kani::cover!(!purge && pre.recent.has(k), "2q remove: recent");
    kani::cover!(!purge && pre.ghost.has(k), "2q remove: ghost key");
    kani::cover!(purge && pre.ghost.n > 0 && pre.recent.n > 0, "2q purge: populated");
    if purge {
        c.purge();
        let (post, wf) = c.verif_check();
        tq_inv!(c, wf, pre, post);
        ck!(post.recent.n == 0 && post.frequent.n == 0 && post.ghost.n == 0 && c.is_empty(), "[C08.purge][C02.absent] purge releases every resident and ghost entry");
    } else {
        let r = c.remove(&k);
        let (post, wf) = c.verif_check();
        tq_inv!(c, wf, pre, post);
        if let Some(val) = lookup(&[&pre.recent, &pre.frequent], k) {
            ck!(r == Some(val), "[C02.remove] remove hands back the stored value of a resident key");
        }
        if lookup(&[&pre.recent, &pre.frequent, &pre.ghost], k).is_none() {
            ck!(r.is_none() && post == pre, "[C02.remove] removing a key that is not retained returns None and changes nothing");
        }
        ck!(!c.contains(&k) && holders(&[&post.recent, &post.frequent], k) == 0, "[C02.absent] a removed key is no longer resident");
        let mut exp = pre;
        if let Some(i) = pre.frequent.pos(k) { exp.frequent = pre.frequent.remove_at(i); }
        if let Some(i) = pre.recent.pos(k) { exp.recent = pre.recent.remove_at(i); }
        ck!(post.recent == exp.recent.canon() && post.frequent == exp.frequent.canon(), "[C08.remove][C02.map] remove takes out exactly that key from the resident queues; order of everything else kept");
        // the statement says nothing about ghosts of a removed key: the ghost list is unchanged or has lost exactly that key
        let ghost_wo = match pre.ghost.pos(k) { Some(i) => pre.ghost.remove_at(i), None => pre.ghost.canon() };
        ck!(post.ghost == pre.ghost.canon() || post.ghost == ghost_wo, "[C08.remove] remove leaves the other ghosts alone");
    }
    c.verif_forget();
}

// per-list iterator families are one-line delegations: check that each accessor hands out the right list
macro_rules! first_len {
    ($it:expr, $f:expr) => {{
        let mut it = $it;
        let n = it.len();
        (n, it.next().map($f))
    }};
}

#[kani::proof]
#[kani::unwind(6)]
fn tq_iter_accessors() {
    let (mut c, pre) = any_tq();
    kani::cover!(pre.recent.n > 0 && pre.frequent.n > 0 && pre.ghost.n > 0, "2q iterators: all queues populated [N>=2]");
    let kv = |p: (&u8, &u8)| (*p.0, *p.1);
    let kvm = |p: (&u8, &mut u8)| (*p.0, *p.1);
    let lists: [(&Abs, u8); 3] = [(&pre.recent, 0), (&pre.frequent, 1), (&pre.ghost, 2)];
    let mut li = 0;
    while li < 3 {
        let (a, which) = lists[li];
        let (first, last) = (a.first(), a.last());
        let (m1, m2, m3, m4, m5, m6, m7, m8, m9, m10) = match which {
            0 => (
                first_len!(c.recent_iter(), kv), first_len!(c.recent_iter_lru(), kv), first_len!(c.recent_iter_mut(), kvm), first_len!(c.recent_iter_lru_mut(), kvm),
                first_len!(c.recent_keys(), |x: &u8| *x), first_len!(c.recent_keys_lru(), |x: &u8| *x), first_len!(c.recent_values(), |x: &u8| *x),
                first_len!(c.recent_values_lru(), |x: &u8| *x), first_len!(c.recent_values_mut(), |x: &mut u8| *x), first_len!(c.recent_values_lru_mut(), |x: &mut u8| *x),
            ),
            1 => (
                first_len!(c.frequent_iter(), kv), first_len!(c.frequent_iter_lru(), kv), first_len!(c.frequent_iter_mut(), kvm), first_len!(c.frequent_iter_lru_mut(), kvm),
                first_len!(c.frequent_keys(), |x: &u8| *x), first_len!(c.frequent_keys_lru(), |x: &u8| *x), first_len!(c.frequent_values(), |x: &u8| *x),
                first_len!(c.frequent_values_lru(), |x: &u8| *x), first_len!(c.frequent_values_mut(), |x: &mut u8| *x), first_len!(c.frequent_values_lru_mut(), |x: &mut u8| *x),
            ),
            _ => (
                first_len!(c.ghost_iter(), kv), first_len!(c.ghost_iter_lru(), kv), first_len!(c.ghost_iter_mut(), kvm), first_len!(c.ghost_iter_lru_mut(), kvm),
                first_len!(c.ghost_keys(), |x: &u8| *x), first_len!(c.ghost_keys_lru(), |x: &u8| *x), first_len!(c.ghost_values(), |x: &u8| *x),
                first_len!(c.ghost_values_lru(), |x: &u8| *x), first_len!(c.ghost_values_mut(), |x: &mut u8| *x), first_len!(c.ghost_values_lru_mut(), |x: &mut u8| *x),
            ),
        };
        ck!(m1 == (a.n, first) && m3 == (a.n, first), "[C14.accessor] *_iter / *_iter_mut hand out that queue's most-recent-first iterator");
        ck!(m2 == (a.n, last) && m4 == (a.n, last), "[C14.accessor] *_iter_lru / *_iter_lru_mut hand out that queue's least-recent-first iterator");
        ck!(m5 == (a.n, first.map(|p| p.0)) && m6 == (a.n, last.map(|p| p.0)), "[C14.accessor] *_keys / *_keys_lru hand out that queue's key iterators");
        ck!(m7 == (a.n, first.map(|p| p.1)) && m8 == (a.n, last.map(|p| p.1)) && m9 == (a.n, first.map(|p| p.1)) && m10 == (a.n, last.map(|p| p.1)),
            "[C14.accessor] *_values(_lru)(_mut) hand out that queue's value iterators");
        li += 1;
    }
    let (post, wf) = c.verif_check();
    ck!(wf && post == pre, "[C13.readonly][C14.readonly] creating the per-queue iterators changes nothing");
    c.verif_forget();
}

#[kani::proof]
#[kani::unwind(6)]
fn tq_builder_sound() {
    let (c, a) = any_tq();
    kani::cover!(a.recent.n + a.frequent.n == a.size && a.ghost.n == a.ghost.cap, "2q builder: full cache, full ghost list");
    kani::cover!(a.recent_size == 0, "2q builder: quota 0");
    kani::cover!(a.recent_size == a.size, "2q builder: quota == size");
    let (b, wf) = c.verif_check();
    ck!(wf && b == a, "[C03.builder] every TwoQueueCache state the builder produces is well formed with exactly the intended view");
    c.verif_forget();
}

#[kani::proof]
#[kani::unwind(8)]
fn tq_drop() {
    let (c, a) = any_tq();
    kani::cover!(a.recent.n > 0 && a.frequent.n > 0 && a.ghost.n > 0, "2q drop: all queues populated [N>=2]");
    drop(c);
}

// ------------------------------------------------------------------ constructor contract (C05, C08 last sentence)

fn ratio_ok(r: f64) -> bool {
    r >= 0.0 && r <= 1.0
}

// kind: proved (sizes 0..=2^32 - "sizes that fit in memory" - and both ratios over all f64 incl. NaN, infinities, subnormals;
// floor/mul/casts are CBMC's exact IEEE model)
#[kani::proof]
#[kani::unwind(6)]
#[kani::solver(cadical)]
fn tq_builder_finalize_contract() {
    let size: usize = kani::any();
    // beyond 2^53 `size as f64` is no longer exact and floor(size x 1.0) may exceed size by one ulp
    kani::assume(size <= (1usize << 32));
    let rr: f64 = kani::any();
    let gr: f64 = kani::any();
    kani::cover!(size == 1 && rr == 0.0 && gr == 1.0, "2q ctor: size 1, ratio boundaries");
    kani::cover!(rr != rr, "2q ctor: NaN recent ratio");
    kani::cover!(size > 0 && ratio_ok(rr) && ratio_ok(gr) && crate::polyfill::floor((size as f64) * gr) as usize == 0, "2q ctor: ghost bound floors to 0");
    let b = TwoQueueCacheBuilder { size, ghost_ratio: Some(gr), recent_ratio: Some(rr), recent_hasher: Some(PoisonHasher), freq_hasher: Some(PoisonHasher), ghost_hasher: Some(PoisonHasher) };
    let r: Result<Tq, CacheError> = b.finalize();
    let quota = crate::polyfill::floor((size as f64) * rr) as usize;
    let ghost = crate::polyfill::floor((size as f64) * gr) as usize;
    match r {
        Err(CacheError::InvalidSize(s)) => ck!(s == 0 && (size == 0 || (ratio_ok(rr) && ratio_ok(gr) && ghost == 0)), "[C05.ctor] InvalidSize(0) exactly for size 0 or a ghost bound that floors to 0"),
        Err(CacheError::InvalidRecentRatio(x)) => ck!(size != 0 && !ratio_ok(rr) && (x == rr || rr != rr), "[C05.ctor] InvalidRecentRatio exactly for a recent ratio outside [0,1] or NaN"),
        Err(CacheError::InvalidGhostRatio(x)) => ck!(size != 0 && ratio_ok(rr) && !ratio_ok(gr) && (x == gr || gr != gr), "[C05.ctor] InvalidGhostRatio exactly for a ghost ratio outside [0,1] or NaN"),
        Ok(c) => {
            ck!(size != 0 && ratio_ok(rr) && ratio_ok(gr) && ghost != 0, "[C05.ctor] construction succeeds only for valid arguments");
            let (a, wf) = c.verif_check();
            ck!(wf && a.recent.n == 0 && a.frequent.n == 0 && a.ghost.n == 0, "[C05.ctor][C03.wf] a fresh 2Q cache is empty and well formed");
            ck!(a.size == size && a.recent.cap == size && a.frequent.cap == size, "[C08.sizes] both resident queues can hold `size` entries");
            ck!(a.recent_size == quota, "[C08.sizes] the recent quota is floor(size x recent ratio)");
            ck!(a.ghost.cap == ghost, "[C08.sizes] the ghost bound is floor(size x ghost ratio)");
            ck!(quota <= size && ghost <= size, "[C01.cap][C08.sizes] quota and ghost bound never exceed the size");
            c.verif_forget();
        }
    }
}


// The four constructors that do not go through the builder (`new`, `with_recent_ratio`, `with_ghost_ratio`,
// `with_2q_parameters`) carry their own copy of the validation and sizing code: same contract as the builder's, with the
// documented defaults substituted.  (Found by listing the public functions no harness mentioned.)  RandomState::new is
// stubbed: the index shim never consults the hasher.
#[cfg(feature = "std")]
fn stub_random_state_new() -> std::collections::hash_map::RandomState {
    unsafe { core::mem::zeroed() }
}

// kind: proved (sizes 0..=2^32 and both ratios over all f64 incl. NaN, infinities, subnormals; floor/mul/casts are CBMC's exact IEEE model)
#[cfg(feature = "std")]
#[kani::proof]
#[kani::unwind(6)]
#[kani::solver(cadical)]
#[kani::stub(std::hash::RandomState::new, stub_random_state_new)]
fn tq_direct_constructors_contract() {
    let size: usize = kani::any();
    kani::assume(size <= (1usize << 32));
    let rr_in: f64 = kani::any();
    let gr_in: f64 = kani::any();
    let which: u8 = kani::any();
    kani::assume(which < 4);
    kani::cover!(which == 0 && size > 0, "2q new");
    kani::cover!(which == 1 && size > 0 && ratio_ok(rr_in), "2q with_recent_ratio");
    kani::cover!(which == 2 && size > 0 && ratio_ok(gr_in), "2q with_ghost_ratio");
    kani::cover!(which == 3 && size > 0 && ratio_ok(rr_in) && ratio_ok(gr_in), "2q with_2q_parameters");
    type TqD = TwoQueueCache<u8, u8>;
    let (r, rr, gr): (Result<TqD, CacheError>, f64, f64) = match which {
        0 => (TqD::new(size), DEFAULT_2Q_RECENT_RATIO, DEFAULT_2Q_GHOST_RATIO),
        1 => (TqD::with_recent_ratio(size, rr_in), rr_in, DEFAULT_2Q_GHOST_RATIO),
        2 => (TqD::with_ghost_ratio(size, gr_in), DEFAULT_2Q_RECENT_RATIO, gr_in),
        _ => (TqD::with_2q_parameters(size, rr_in, gr_in), rr_in, gr_in),
    };
    let quota = crate::polyfill::floor((size as f64) * rr) as usize;
    let ghost = crate::polyfill::floor((size as f64) * gr) as usize;
    match r {
        Err(CacheError::InvalidSize(s)) => ck!(s == 0 && (size == 0 || (ratio_ok(rr) && ratio_ok(gr) && ghost == 0)), "[C05.ctor] InvalidSize(0) exactly for size 0 or a ghost bound that floors to 0"),
        Err(CacheError::InvalidRecentRatio(x)) => ck!(size != 0 && !ratio_ok(rr) && (x == rr || rr != rr), "[C05.ctor] InvalidRecentRatio exactly for a recent ratio outside [0,1] or NaN"),
        Err(CacheError::InvalidGhostRatio(x)) => ck!(size != 0 && ratio_ok(rr) && !ratio_ok(gr) && (x == gr || gr != gr), "[C05.ctor] InvalidGhostRatio exactly for a ghost ratio outside [0,1] or NaN"),
        Ok(c) => {
            ck!(size != 0 && ratio_ok(rr) && ratio_ok(gr) && ghost != 0, "[C05.ctor] construction succeeds only for valid arguments");
            let (a, wf) = c.verif_check();
            ck!(wf && a.recent.n == 0 && a.frequent.n == 0 && a.ghost.n == 0, "[C05.ctor][C03.wf] a fresh 2Q cache is empty and well formed");
            ck!(a.size == size && a.recent.cap == size && a.frequent.cap == size, "[C08.sizes] both resident queues can hold `size` entries");
            ck!(a.recent_size == quota, "[C08.sizes] the recent quota is floor(size x recent ratio) (documented default when not given)");
            ck!(a.ghost.cap == ghost, "[C08.sizes] the ghost bound is floor(size x ghost ratio) (documented default when not given)");
            ck!(quota <= size && ghost <= size, "[C01.cap][C08.sizes] quota and ghost bound never exceed the size");
            c.verif_forget();
        }
    }
}


// ------------------------------------------------------------------ ownership conservation (C04), unit K-LEAK

// tier: thorough (dropping whole composite caches with tracked payloads is expensive for CBMC)
#[kani::proof]
#[kani::unwind(14)]
fn tq_put_leakcheck() {
    use crate::verif_hooks::gen::*;
    let size: usize = kani::any();
    let quota: usize = kani::any();
    kani::assume(size >= 1 && size <= N && quota <= size);
    let recent = any_tracked_abs(N, 1);
    let frequent = any_tracked_abs(N, 1);
    let ghost = any_tracked_abs(N, 1);
    kani::assume(recent.cap == size && frequent.cap == size && ghost.cap <= size && recent.n + frequent.n <= size);
    kani::assume(partitioned(&[&recent, &frequent, &ghost]) && values_distinct(&[&recent, &frequent, &ghost]));
    reset_drops();
    let mut c = TwoQueueCache::verif_from_parts(size, quota, build_tracked(&recent, PoisonHasher), build_tracked(&frequent, PoisonHasher), build_tracked(&ghost, PoisonHasher));
    let k: u8 = kani::any();
    let v: u8 = kani::any();
    kani::assume(k < 6 && v >= 6 && v < 12);
    let before = ids_of(&[&recent, &frequent, &ghost]);
    kani::assume(before & (1 << v) == 0);
    let hit = recent.has(k) || frequent.has(k) || ghost.has(k);
    kani::cover!(ghost.has(k) && recent.n + frequent.n == size && ghost.n == ghost.cap, "2q tracked put: ghost hit, everything full");
    kani::cover!(!hit && recent.n + frequent.n == size && ghost.n == ghost.cap, "2q tracked put: new key, ghost overflow");
    let created = before | (1 << v) | if hit { 0 } else { 1 << k };
    let r = c.put(Tk(k), Tv(v));
    drop(r);
    if hit {
        ck!(drops(k) == 1, "[C04.once] on an update or revival the surplus key object is dropped exactly once");
        set_drops(k, 0);
    }
    let (post, wf) = c.verif_check();
    ck!(wf, "[C03.wf] queues well formed after put with heap-tracked payloads");
    ck!(conserved(created, ids_of(&[&post.recent, &post.frequent, &post.ghost])), "[C04.once] after put every key and value is retained (resident or ghost), or was handed back, or was dropped exactly once");
    drop(c);
    ck!(conserved(created, 0), "[C04.drop] dropping the cache releases every retained key and value exactly once");
}

// ------------------------------------------------------------------ ownership with heap-owning values (C04), cheap variant
// (see harness_segmented.rs: V = Box<u8>, double drops / use after free are CBMC failures by themselves)
type TqB = TwoQueueCache<u8, alloc::boxed::Box<u8>, PoisonHasher, PoisonHasher, PoisonHasher>;

#[kani::proof]
#[kani::unwind(6)]
fn tq_put_boxed_values() {
    let size: usize = kani::any();
    let quota: usize = kani::any();
    kani::assume(size >= 1 && size <= N && quota <= size);
    let recent = any_abs(N, 1);
    let frequent = any_abs(N, 1);
    let ghost = any_abs(N, 1);
    kani::assume(recent.cap == size && frequent.cap == size && ghost.cap <= size && recent.n + frequent.n <= size);
    kani::assume(partitioned(&[&recent, &frequent, &ghost]));
    let mk = |a: &Abs| RawLRU::<u8, alloc::boxed::Box<u8>, DefaultEvictCallback, PoisonHasher>::verif_from_parts(a.cap, PoisonHasher, None, a.n, |i| (a.k[i], alloc::boxed::Box::new(a.v[i])));
    let mut c: TqB = TwoQueueCache::verif_from_parts(size, quota, mk(&recent), mk(&frequent), mk(&ghost));
    let k: u8 = kani::any();
    let v: u8 = kani::any();
    kani::cover!(ghost.has(k) && recent.n + frequent.n == size && ghost.n == ghost.cap, "2q boxed put: ghost hit, everything full");
    kani::cover!(holders(&[&recent, &frequent, &ghost], k) == 0 && recent.n + frequent.n == size && ghost.n == ghost.cap, "2q boxed put: new key, ghost overflow");
    let r = c.put(k, alloc::boxed::Box::new(v));
    let back = match &r {
        PutResult::Put => None,
        PutResult::Update(o) => Some(**o),
        PutResult::Evicted { value, .. } => Some(**value),
        PutResult::EvictedAndUpdate { update, .. } => Some(**update),
    };
    if let Some(x) = lookup(&[&recent, &frequent, &ghost], k) {
        ck!(back == Some(x), "[C04.handback][C12.result] the old value handed back by an update or revival is the stored one, still alive");
    }
    drop(r);
    let (post, wf) = c.verif_check();
    ck!(wf, "[C03.wf] queues well formed with heap-owning values");
    ck!(lookup(&[&post.recent, &post.frequent], k) == Some(v), "[C04.alive][C02.value] the stored value is alive and is the one just put");
    c.verif_forget();
}
