// K-WTLFU: WTinyLFUCache contracts (C10, and C01/C02/C03/C05/C12/C13/C16 for this cache type).
// The admission verdict is read from the REAL estimator in the pre-state, so the contract holds for every
// sketch content, seed and doorkeeper state.
// Non-blocking check: Kani's `assert!` assumes its condition afterwards, so the first failing conjunct of a contract
// would hide every later one on the same path (and with it the verdicts of the other properties that harness serves).
// `ck!` performs the check on a nondeterministically chosen side branch, so every conjunct is reported independently.
macro_rules! ck {
    ($c:expr, $m:literal) => {
        if kani::any::<bool>() {
            assert!($c, $m);
        }
    };
    ($c:expr) => {
        assert!($c)
    };
}

use super::*;
use crate::lfu::tinylfu::TinyLFU;
use crate::verif_hooks::gen::{any_abs, build, N};
use crate::verif_hooks::spec::*;
use crate::verif_hooks::{ByteKeyHasher, PoisonHasher};
use crate::{Cache, PutResult, SegmentedCache};

pub type Wt = WTinyLFUCache<u8, u8, ByteKeyHasher, PoisonHasher, PoisonHasher, PoisonHasher>;
type Est = TinyLFU<u8, ByteKeyHasher>;

#[derive(Clone, Copy)]
pub struct WtAbs {
    pub window: Abs,
    pub main: SegAbs,
}

fn any_estimator() -> Est {
    // structurally minimal (rows of 2 counters, one doorkeeper word, one probe) but with arbitrary contents:
    // arbitrary counters, seeds, doorkeeper bits, sample size and window position.  The cache's contract only
    // reads verdicts and states off this estimator; the estimator's own contracts are units V-TLFU / K-SKETCH.
    let samples: usize = kani::any();
    let w: usize = kani::any();
    kani::assume(samples >= 1 && samples <= 3 && w < samples);
    Est::verif_small(kani::any(), 1, kani::any(), kani::any(), 1, samples, w, ByteKeyHasher)
}

/// arbitrary state satisfying the W-TinyLFU invariant: window and both main segments well formed with
/// capacities >= 1, pairwise disjoint key sets, arbitrary valid estimator
pub fn any_wt() -> (Wt, WtAbs) {
    let window = any_abs(N, 1);
    let pb = any_abs(N, 1);
    let pt = any_abs(N, 1);
    kani::assume(partitioned(&[&window, &pb, &pt]));
    let slru = SegmentedCache::verif_from_parts(build(&pb, PoisonHasher, None), build(&pt, PoisonHasher, None));
    let c = Wt::verif_from_parts(any_estimator(), build(&window, PoisonHasher, None), slru);
    (c, WtAbs { window, main: SegAbs { probationary: pb, protected: pt, probationary_size: pb.cap, protected_size: pt.cap } })
}

macro_rules! wt_inv {
    ($c:expr, $wf:expr, $pre:expr, $w:expr, $m:expr) => {
        ck!($wf, "[C03.wf] window, probationary and protected lists are well-formed chains matching their indexes (entries migrate between them)");
        ck!($w.n <= $w.cap && $m.probationary.n <= $m.probationary.cap && $m.protected.n <= $m.protected.cap, "[C01.cap] window, probationary and protected each stay within their configured bound");
        ck!($w.cap == $pre.window.cap && $m.probationary.cap == $pre.main.probationary.cap && $m.protected.cap == $pre.main.protected.cap
            && $m.probationary_size == $pre.main.probationary_size && $m.protected_size == $pre.main.protected_size, "[C01.cap] configured sizes never change");
        ck!(partitioned(&[&$w, &$m.probationary, &$m.protected]), "[C01.partition] a key is held in at most one of window / probationary / protected");
        ck!($c.len() == $w.n + $m.probationary.n + $m.protected.n && $c.len() <= $c.cap(), "[C01.len] len() counts the resident entries and never exceeds cap()");
        ck!($c.is_empty() == ($w.n + $m.probationary.n + $m.protected.n == 0), "[C01.empty] is_empty() iff nothing retained");
        ck!($c.window_cache_len() == $w.n && $c.window_cache_cap() == $w.cap && $c.main_cache_len() == $m.probationary.n + $m.protected.n
            && $c.main_cache_cap() == $m.probationary_size + $m.protected_size, "[C01.len] window/main len and cap accessors report their own numbers");
    };
}







// One harness for `put`: the three cases share one symbolic run of the real `put`.
#[kani::proof]
#[kani::unwind(10)]
fn wt_put() {
    let (mut c, pre) = any_wt();
    let k: u8 = kani::any();
    let v: u8 = kani::any();
    let in_window = pre.window.has(k);
    let in_main = pre.main.protected.has(k) || pre.main.probationary.has(k);
    let is_new = !in_window && !in_main;
    let e0 = c.verif_estimator().verif_abs();

    kani::cover!((in_window) && (pre.main.protected.n == pre.main.protected.cap), "wtlfu put: window hit, protected full");
    kani::cover!((in_window) && (pre.main.protected.n < pre.main.protected.cap), "wtlfu put: window hit, protected has room");

    kani::cover!((in_main) && (pre.main.probationary.has(k) && pre.main.protected.n == pre.main.protected.cap), "wtlfu put: probationary hit with protected full");
    kani::cover!((in_main) && (pre.main.protected.has(k)), "wtlfu put: protected hit");

    let window_full = pre.window.n == pre.window.cap;
    let main_len = pre.main.probationary.n + pre.main.protected.n;
    let main_full = main_len >= pre.main.probationary.cap + pre.main.protected.cap;
    // the verdict is taken from the real estimator at decision time
    let verdict_reject = if window_full && main_full {
        let (ck, _) = pre.window.last().unwrap();
        let (vk, _) = pre.main.probationary.last().unwrap();
        c.verif_estimator().estimate(&ck) < c.verif_estimator().estimate(&vk)
    } else {
        false
    };
    kani::cover!((is_new) && (!window_full), "wtlfu put: window has room");
    kani::cover!((is_new) && (window_full && !main_full), "wtlfu put: candidate admitted freely");
    kani::cover!((is_new) && (window_full && main_full && verdict_reject), "wtlfu put: candidate rejected");
    kani::cover!((is_new) && (window_full && main_full && !verdict_reject), "wtlfu put: candidate replaces the victim");
    let r = c.put(k, v);
    let (w, m, wf) = c.verif_check();
    wt_inv!(c, wf, pre, w, m);
    ck!(c.verif_estimator().verif_abs() == e0, "[C10.estimator][C13.estimator] put does not touch the frequency estimator");
    if in_window {
        let i = pre.window.pos(k).unwrap();
        let w1 = pre.window.remove_at(i);
        let (ew, ept) = if pre.main.protected.n >= pre.main.protected.cap {
            let (dk, dv) = pre.main.protected.last().unwrap();
            (w1.push_front(dk, dv), pre.main.protected.drop_last().push_front(k, v))
        } else {
            (w1, pre.main.protected.push_front(k, v))
        };
        ck!(pr_of(&r) == PR::Update(pre.window.v[i]), "[C12.result] put on a window-resident key returns Update(old)");
        ck!(m.protected.view_eq(&ept) && m.probationary == pre.main.probationary, "[C10.window_hit][C02.value] a put on a window-resident key moves it into the protected segment with the new value");
        ck!(w.view_eq(&ew), "[C10.window_hit] protected's least-recent entry is demoted into the window when protected is full (nothing leaves)");
    } else if in_main {
        let (epb, ept, er) = spec_seg_put(&pre.main, k, v);
        ck!(pr_of(&r) == er, "[C12.result] a put on a main-cache key is an Update(old)");
        ck!(m.probationary.view_eq(&epb) && m.protected.view_eq(&ept) && w == pre.window, "[C10.main_hit][C02.value] a put on a main-cache key follows the segmented-LRU rule; the window is untouched");
    } else if is_new {
        ck!(put_result_truthful(&[&pre.window, &pre.main.probationary, &pre.main.protected], &[&w, &m.probationary, &m.protected], k, v, pr_of(&r)),
            "[C12.result][C12.delta] the PutResult names exactly the entry that left the cache (the rejected candidate or the replaced victim), or Put");
        let (ew, wr) = spec_lru_put(&pre.window, k, v);
        ck!(w.view_eq(&ew), "[C10.enter][C02.value] new keys enter the window LRU; its least-recent entry is pushed out when it is full");
        match wr {
            PR::Evicted(ck, cv) => {
                if !main_full {
                    let (epb, er) = spec_lru_put(&pre.main.probationary, ck, cv);
                    ck!(pr_of(&r) == er && m.probationary.view_eq(&epb) && m.protected == pre.main.protected,
                        "[C10.admit_free] while the main cache has room the candidate is admitted freely (into probationary)");
                } else {
                    let (vk, vv) = pre.main.probationary.last().unwrap();
                    if verdict_reject {
                        ck!(pr_of(&r) == PR::Evicted(ck, cv) && m == pre.main, "[C10.reject] the candidate is rejected and handed back as Evicted only if its estimate is strictly lower than the victim's");
                    } else {
                        ck!(pr_of(&r) == PR::Evicted(vk, vv) && m.probationary.view_eq(&pre.main.probationary.drop_last().push_front(ck, cv)) && m.protected == pre.main.protected,
                            "[C10.admit] otherwise the candidate replaces the victim (main's least-recent probationary entry), which is handed back as Evicted");
                    }
                }
            }
            _ => ck!(pr_of(&r) == PR::Put && m == pre.main, "[C10.enter][C12.result] with room in the window nothing else changes and the result is Put"),
        }
    }
    c.verif_forget();
}

#[kani::proof]
#[kani::unwind(10)]
fn wt_get() {
    let (mut c, pre) = any_wt();
    let k: u8 = kani::any();
    let mutable: bool = kani::any();
    let wv: u8 = kani::any();
    kani::cover!(pre.window.has(k), "wtlfu get: window hit");
    kani::cover!(pre.main.probationary.has(k), "wtlfu get: probationary hit");
    kani::cover!(!pre.window.has(k) && !pre.main.probationary.has(k) && !pre.main.protected.has(k), "wtlfu get: miss");
    // one recorded access for k, on the real estimator code (contract of increment: unit V-TLFU);
    // the statement does not fix how many plain window ticks accompany it, so 0 or 1 are accepted
    let mut e1 = c.verif_estimator().clone();
    e1.increment(&k);
    let mut e2 = c.verif_estimator().clone();
    e2.try_reset();
    e2.increment(&k);
    let r = if mutable { c.get_mut(&k).map(|x| { let o = *x; *x = wv; o }) } else { c.get(&k).copied() };
    let (w, m, wf) = c.verif_check();
    wt_inv!(c, wf, pre, w, m);
    let nv = if mutable { Some(wv) } else { None };
    ck!(r == lookup(&[&pre.window, &pre.main.probationary, &pre.main.protected], k), "[C02.lookup] get/get_mut return exactly the stored value, None iff absent");
    let got = c.verif_estimator().verif_abs();
    ck!(got == e1.verif_abs() || got == e2.verif_abs(), "[C10.record] every get/get_mut, hit or miss, records exactly one access for that key in the estimator");
    if let Some(i) = pre.window.pos(k) {
        ck!(w.view_eq(&pre.window.touch(i, nv)) && m == pre.main, "[C10.lookup][C02.write] a window hit refreshes the entry in the window");
    } else {
        let (epb, ept) = spec_seg_get(&pre.main, k, nv);
        ck!(w == pre.window && m.probationary.view_eq(&epb) && m.protected.view_eq(&ept), "[C10.lookup][C02.write] otherwise the main cache is consulted with the segmented-LRU rule");
    }
    core::mem::forget(e1);
    core::mem::forget(e2);
    c.verif_forget();
}

#[kani::proof]
#[kani::unwind(10)]
fn wt_readonly() {
    let (mut c, pre) = any_wt();
    let k: u8 = kani::any();
    let wv: Option<u8> = kani::any();
    kani::cover!(pre.window.has(k) && wv.is_some(), "wtlfu peek_mut write: window");
    kani::cover!(pre.main.protected.has(k) && wv.is_none(), "wtlfu peek: protected hit");
    let e0 = c.verif_estimator().verif_abs();
    let want = lookup(&[&pre.window, &pre.main.probationary, &pre.main.protected], k);
    ck!(c.peek(&k).copied() == want, "[C02.lookup] peek returns exactly the stored value, None iff absent");
    ck!(c.contains(&k) == want.is_some(), "[C02.lookup] contains agrees with residency");
    let got = match c.peek_mut(&k) {
        Some(x) => { let o = *x; if let Some(n) = wv { *x = n; } Some(o) }
        None => None,
    };
    ck!(got == want, "[C02.lookup] peek_mut hands out the stored value, None iff absent");
    let (w, m, wf) = c.verif_check();
    wt_inv!(c, wf, pre, w, m);
    let fix = |a: &Abs| match (a.pos(k), wv) { (Some(i), Some(n)) => a.with_val(i, n), _ => a.canon() };
    ck!(w == fix(&pre.window) && m.probationary == fix(&pre.main.probationary) && m.protected == fix(&pre.main.protected),
        "[C13.readonly][C02.write] peek, contains, len/cap accessors and peek_mut change nothing but a value written through peek_mut");
    ck!(c.verif_estimator().verif_abs() == e0, "[C13.estimator] read-only operations leave the frequency estimator untouched");
    c.verif_forget();
}

#[kani::proof]
#[kani::unwind(10)]
fn wt_remove_purge() {
    let (mut c, pre) = any_wt();
    let k: u8 = kani::any();
    let purge: bool = kani::any();
    kani::cover!(!purge && pre.window.has(k), "wtlfu remove: window");
    kani::cover!(!purge && pre.main.probationary.has(k), "wtlfu remove: probationary");
    kani::cover!(purge && pre.window.n > 0 && pre.main.protected.n > 0, "wtlfu purge: populated");
    let e0 = c.verif_estimator().verif_abs();
    if purge {
        c.purge();
        let (w, m, wf) = c.verif_check();
        wt_inv!(c, wf, pre, w, m);
        ck!(w.n == 0 && m.probationary.n == 0 && m.protected.n == 0, "[C10.purge][C02.absent] purge releases every entry");
        let e = c.verif_estimator().verif_abs();
        let mut cleared = e0;
        cleared.w = 0;
        cleared.bits = 0;
        cleared.c = [[0u8; 8]; 4];
        ck!(e == cleared, "[C10.purge] purge clears the estimator (window counter, doorkeeper and every sketch counter)");
    } else {
        let r = c.remove(&k);
        let (w, m, wf) = c.verif_check();
        wt_inv!(c, wf, pre, w, m);
        ck!(r == lookup(&[&pre.window, &pre.main.probationary, &pre.main.protected], k), "[C02.remove] remove hands back the stored value, None iff absent");
        let rm = |a: &Abs| match a.pos(k) { Some(i) => a.remove_at(i), None => a.canon() };
        ck!(w == rm(&pre.window) && m.probationary == rm(&pre.main.probationary) && m.protected == rm(&pre.main.protected) && !c.contains(&k),
            "[C02.absent][C02.map] remove takes out exactly that key; order of everything else kept");
        ck!(c.verif_estimator().verif_abs() == e0, "[C13.estimator] remove leaves the frequency estimator untouched");
    }
    c.verif_forget();
}

#[kani::proof]
#[kani::unwind(10)]
fn wt_clone() {
    // WTinyLFUCache::clone delegates to the clones of its three parts (RawLRU::clone: K-LIFE, SegmentedCache::clone:
    // K-SEG, TinyLFU::clone: K-TLFU-CTOR, each checked with drop/independence); here: the right part ends up in the
    // right field with the right state.  Both caches are forgotten (dropping 2 x 3 lists is what made this harness
    // need 17 GB).
    let (c, pre) = any_wt();
    kani::cover!(pre.window.n >= 1 && pre.main.protected.n >= 2, "wtlfu clone: populated [N>=2]");
    let e0 = c.verif_estimator().verif_abs();
    let d = c.clone();
    let (w, m, wf) = d.verif_check();
    ck!(wf, "[C03.wf][C16.wf] a cloned WTinyLFUCache is well formed");
    ck!(w == pre.window && m == pre.main, "[C16.contents][C16.order][C17.maporder][C01.cap] a clone has the same capacities, contents, values and recency order in every segment");
    ck!(d.verif_estimator().verif_abs() == e0, "[C16.estimator] a clone has the same estimator state");
    let (w2, m2, wf2) = c.verif_check();
    ck!(wf2 && w2 == pre.window && m2 == pre.main && c.verif_estimator().verif_abs() == e0, "[C16.independent][C13.readonly] cloning leaves the original unchanged");
    d.verif_forget();
    c.verif_forget();
}

#[kani::proof]
#[kani::unwind(10)]
fn wt_builder_sound() {
    let (c, a) = any_wt();
    kani::cover!(a.window.n == a.window.cap && a.main.probationary.n == a.main.probationary.cap && a.main.protected.n == a.main.protected.cap, "wtlfu builder: everything full");
    let (w, m, wf) = c.verif_check();
    ck!(wf && w == a.window && m == a.main, "[C03.builder] every WTinyLFUCache state the builder produces is well formed with exactly the intended view");
    let e = c.verif_estimator().verif_abs();
    ck!(e.w < e.samples && e.width >= 2, "[C03.builder] the built estimator satisfies its invariant");
    c.verif_forget();
}

// kind: proved (all sizes, sample counts and f64 ratios; only argument tuples that FAIL validation, see below)
#[kani::proof]
#[kani::unwind(6)]
fn wt_builder_validates() {
    let (wsz, psz, bsz, samples): (usize, usize, usize, usize) = kani::any();
    let fp: f64 = kani::any();
    let bad_fp = !(fp > 0.0 && fp < 1.0);
    // arguments that pass validation go on to build the real sketch (time-seeded in the std build), which is
    // exercised with small sizes in the no_std configuration; here: every invalid tuple is rejected with the matching error
    kani::assume(wsz == 0 || psz == 0 || bsz == 0 || samples == 0 || bad_fp);
    kani::cover!(fp != fp && wsz != 0 && psz != 0 && bsz != 0 && samples != 0, "wtlfu ctor: NaN ratio only");
    let b = WTinyLFUCacheBuilder::<u8, ByteKeyHasher, PoisonHasher, PoisonHasher, PoisonHasher>::with_hashers(ByteKeyHasher, PoisonHasher, PoisonHasher, PoisonHasher)
        .set_window_cache_size(wsz).set_protected_cache_size(psz).set_probationary_cache_size(bsz).set_samples(samples).set_false_positive_ratio(fp);
    let r: Result<Wt, WTinyLFUError> = b.finalize();
    match r {
        Err(WTinyLFUError::InvalidWindowCacheSize(x)) => ck!(wsz == 0 && x == 0, "[C05.ctor] InvalidWindowCacheSize exactly for window size 0"),
        Err(WTinyLFUError::InvalidProtectedCacheSize(x)) => ck!(wsz != 0 && psz == 0 && x == 0, "[C05.ctor] InvalidProtectedCacheSize exactly for protected size 0"),
        Err(WTinyLFUError::InvalidProbationaryCacheSize(x)) => ck!(wsz != 0 && psz != 0 && bsz == 0 && x == 0, "[C05.ctor] InvalidProbationaryCacheSize exactly for probationary size 0"),
        Err(WTinyLFUError::InvalidSamples(x)) => ck!(wsz != 0 && psz != 0 && bsz != 0 && samples == 0 && x == 0, "[C05.ctor] InvalidSamples exactly for zero samples"),
        Err(WTinyLFUError::InvalidFalsePositiveRatio(_)) => ck!(wsz != 0 && psz != 0 && bsz != 0 && samples != 0 && bad_fp, "[C05.ctor] InvalidFalsePositiveRatio exactly for a ratio outside (0,1) or NaN"),
        Err(_) => ck!(false, "[C05.ctor] no other error for these arguments"),
        Ok(c) => {
            ck!(false, "[C05.ctor] invalid arguments are rejected");
            c.verif_forget();
        }
    }
}

// configs: nostd (the std sketch constructor seeds itself from SystemTime + StdRng, which Kani cannot execute)
#[kani::proof]
#[kani::unwind(12)]
fn wt_builder_small_sizes_ok() {
    let (wsz, psz, bsz): (usize, usize, usize) = kani::any();
    kani::assume(wsz >= 1 && wsz <= 2 && psz >= 1 && psz <= 2 && bsz >= 1 && bsz <= 2);
    let b = WTinyLFUCacheBuilder::<u8, ByteKeyHasher, PoisonHasher, PoisonHasher, PoisonHasher>::with_hashers(ByteKeyHasher, PoisonHasher, PoisonHasher, PoisonHasher)
        .set_window_cache_size(wsz).set_protected_cache_size(psz).set_probationary_cache_size(bsz).set_samples(2).set_false_positive_ratio(0.5);
    let r: Result<Wt, WTinyLFUError> = b.finalize();
    match r {
        Ok(c) => {
            let (w, m, wf) = c.verif_check();
            ck!(wf && w == Abs::empty(wsz) && m.probationary == Abs::empty(bsz) && m.protected == Abs::empty(psz) && m.probationary_size == bsz && m.protected_size == psz,
                "[C05.ctor][C01.cap] window, probationary and protected get their requested capacities (each assigned to the right list)");
            ck!(c.cap() == wsz + psz + bsz, "[C01.cap] cap() is the sum of the three sizes");
            c.verif_forget();
        }
        Err(_) => ck!(false, "[C05.ctor] valid arguments construct successfully"),
    }
}
