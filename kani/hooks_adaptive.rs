// verification hooks (see /verif/DESIGN.md section 10); compiled only with --features verif-hooks
#![allow(missing_docs, dead_code, unused_imports)]
