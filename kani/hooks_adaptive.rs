// Verification hooks for src/lru/adaptive.rs (child module: sees private fields).
#![allow(missing_docs, dead_code, unused_imports)]

use super::*;
pub use crate::verif_hooks::spec::{Abs, Vid, NMAX};

#[derive(Clone, Copy, PartialEq, Eq, Debug)]
pub struct ArcAbs {
    pub size: usize,
    pub p: usize,
    /// T1
    pub recent: Abs,
    /// T2
    pub frequent: Abs,
    /// B1
    pub recent_evict: Abs,
    /// B2
    pub frequent_evict: Abs,
}

impl<K, V, RH, REH, FH, FEH> AdaptiveCache<K, V, RH, REH, FH, FEH> {
    #[doc(hidden)]
    pub fn verif_abs(&self) -> ArcAbs
    where
        K: Vid,
        V: Vid,
    {
        ArcAbs {
            size: self.size,
            p: self.p,
            recent: self.recent.verif_abs(),
            frequent: self.frequent.verif_abs(),
            recent_evict: self.recent_evict.verif_abs(),
            frequent_evict: self.frequent_evict.verif_abs(),
        }
    }
}

#[cfg(kani)]
impl<K: Hash + Eq, V, RH: BuildHasher, REH: BuildHasher, FH: BuildHasher, FEH: BuildHasher> AdaptiveCache<K, V, RH, REH, FH, FEH> {
    pub(crate) fn verif_from_parts(
        size: usize,
        p: usize,
        recent: RawLRU<K, V, DefaultEvictCallback, RH>,
        recent_evict: RawLRU<K, V, DefaultEvictCallback, REH>,
        frequent: RawLRU<K, V, DefaultEvictCallback, FH>,
        frequent_evict: RawLRU<K, V, DefaultEvictCallback, FEH>,
    ) -> Self {
        AdaptiveCache { size, p, recent, recent_evict, frequent, frequent_evict }
    }

    pub(crate) fn verif_check(&self) -> (ArcAbs, bool)
    where
        K: Vid,
        V: Vid,
    {
        let (t1, w1) = self.recent.verif_check();
        let (t2, w2) = self.frequent.verif_check();
        let (b1, w3) = self.recent_evict.verif_check();
        let (b2, w4) = self.frequent_evict.verif_check();
        (ArcAbs { size: self.size, p: self.p, recent: t1, frequent: t2, recent_evict: b1, frequent_evict: b2 }, w1 && w2 && w3 && w4)
    }

    pub(crate) fn verif_forget(self) {
        core::mem::forget(self)
    }
}

#[cfg(kani)]
#[path = "/verif/kani/harness_adaptive.rs"]
pub(crate) mod harness;
