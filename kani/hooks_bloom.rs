// Verification hooks for src/lfu/tinylfu/bloom.rs
#![allow(missing_docs, dead_code, unused_imports)]
use super::*;

impl Bloom {
    /// a small doorkeeper for harnesses: `words` 64-bit words (a power of two), `locs` probe positions.
    /// It satisfies the invariant Bloom::new establishes (mask = bits - 1, shift = 64 - log2(bits)).
    pub(crate) fn verif_small(words: Vec<u64>, locs: u64) -> Self {
        let bits = (words.len() as u64) * 64;
        let mut exp = 0u64;
        while (1u64 << exp) < bits {
            exp += 1;
        }
        Bloom { bitset: words, elem_num: 0, size_exp: exp, size: bits - 1, set_locs: locs, shift: 64 - exp }
    }
    pub(crate) fn verif_word(&self, i: usize) -> u64 {
        self.bitset[i]
    }
    pub(crate) fn verif_words(&self) -> usize {
        self.bitset.len()
    }
    /// (bitset length in bits, mask, shift, set_locs, size_exp)
    pub(crate) fn verif_config(&self) -> (u64, u64, u64, u64, u64) {
        ((self.bitset.len() as u64) * 64, self.size, self.shift, self.set_locs, self.size_exp)
    }
}
