// Crate-root verification hooks: shared spec module, harness-side helper types, K-PR harnesses.
// Compiled only with --features verif-hooks (see /verif/DESIGN.md section 10).
#![allow(missing_docs, dead_code, unused_imports)]

#[path = "/verif/kani/spec.rs"]
pub mod spec;

/// BuildHasher whose use is a verification failure: the crate must never hash a key itself
/// (only the index may), and the index shim never consults the hasher (DESIGN.md 3.4 / C17).
#[derive(Clone, Copy, Default)]
pub struct PoisonHasher;
pub struct PoisonState;
impl core::hash::Hasher for PoisonState {
    fn finish(&self) -> u64 {
        0
    }
    fn write(&mut self, _bytes: &[u8]) {}
}
impl core::hash::BuildHasher for PoisonHasher {
    type Hasher = PoisonState;
    fn build_hasher(&self) -> PoisonState {
        #[cfg(kani)]
        panic!("[C17.hasher] the cache hashed a key outside its index");
        #[cfg(not(kani))]
        PoisonState
    }
}

#[cfg(kani)]
#[path = "/verif/kani/gen.rs"]
pub mod gen;

#[cfg(kani)]
#[path = "/verif/kani/harness_lib.rs"]
mod harness;

/// KeyHasher for harnesses: the hash of a u8 key is the key itself (hash values are symbolic anyway)
#[derive(Clone, Copy, Default)]
pub struct ByteKeyHasher;
pub struct ByteState(pub u64);
impl core::hash::Hasher for ByteState {
    fn finish(&self) -> u64 {
        self.0
    }
    fn write(&mut self, bytes: &[u8]) {
        let mut i = 0;
        while i < bytes.len() {
            self.0 = (self.0 << 8) | bytes[i] as u64;
            i += 1;
        }
    }
    fn write_u8(&mut self, i: u8) {
        self.0 = (self.0 << 8) | i as u64;
    }
}
impl crate::lfu::KeyHasher<u8> for ByteKeyHasher {
    fn hash_key<Q>(&self, key: &Q) -> u64
    where
        u8: core::borrow::Borrow<Q>,
        Q: core::hash::Hash + Eq + ?Sized,
    {
        let mut s = ByteState(0);
        key.hash(&mut s);
        core::hash::Hasher::finish(&s)
    }
}
