// Crate-root verification hooks: shared spec module, harness-side helper types, K-PR harnesses.
// Compiled only with --features verif-hooks (see /verif/DESIGN.md section 10).
#![allow(missing_docs, dead_code, unused_imports)]

#[path = "/verif/kani/spec.rs"]
pub mod spec;

/// BuildHasher whose use is a verification failure: the crate must never hash a key itself
/// (only the index may), and the index shim never consults the hasher (DESIGN.md 3.4 / C17).
#[derive(Clone, Copy, Default)]
pub struct PoisonHasher;
pub struct PoisonState;
impl core::hash::Hasher for PoisonState {
    fn finish(&self) -> u64 {
        0
    }
    fn write(&mut self, _bytes: &[u8]) {}
}
impl core::hash::BuildHasher for PoisonHasher {
    type Hasher = PoisonState;
    fn build_hasher(&self) -> PoisonState {
        #[cfg(kani)]
        panic!("[C17.hasher] the cache hashed a key outside its index");
        #[cfg(not(kani))]
        PoisonState
    }
}

#[cfg(kani)]
#[path = "/verif/kani/gen.rs"]
pub mod gen;

#[cfg(kani)]
#[path = "/verif/kani/harness_lib.rs"]
mod harness;
