// Verification hooks for src/lru/raw.rs (child module of crate::lru::raw, so it sees private fields).
// Compiled only with --features verif-hooks.  Outside Kani it offers only the read-only abstract view.
#![allow(missing_docs, dead_code, unused_imports)]

use super::*;
pub use crate::verif_hooks::spec::{Abs, Vid, NMAX};

impl<K, V, E, S> RawLRU<K, V, E, S> {
    /// abstract view: (cap, entries most-recent first), read by following `next` from the head sentinel
    #[doc(hidden)]
    pub fn verif_abs(&self) -> Abs
    where
        K: Vid,
        V: Vid,
    {
        let mut a = Abs::empty(self.cap);
        unsafe {
            let mut p = (*self.head).next;
            let mut i = 0;
            while i < NMAX {
                if p != self.tail {
                    a.k[i] = (*(*p).key.as_ptr()).vid();
                    a.v[i] = (*(*p).val.as_ptr()).vid();
                    a.n += 1;
                    p = (*p).next;
                }
                i += 1;
            }
            a.complete = p == self.tail;
        }
        a
    }
}

#[cfg(kani)]
impl<K, V, E, S> RawLRU<K, V, E, S> {
    /// addresses of the linked nodes, head side first (bounded walk)
    pub(crate) fn verif_nodes(&self) -> ([*mut EntryNode<K, V>; NMAX], usize, bool) {
        let mut nodes = [core::ptr::null_mut(); NMAX];
        let mut n = 0;
        unsafe {
            let mut p = (*self.head).next;
            let mut i = 0;
            while i < NMAX {
                if p != self.tail {
                    nodes[i] = p;
                    n += 1;
                    p = (*p).next;
                }
                i += 1;
            }
            (nodes, n, p == self.tail)
        }
    }

    /// Representation invariant of DESIGN.md 4.1 (second sentence of C03), as an executable audit.
    /// Uses pointer equalities only; dereferences every node reachable from the index, so a
    /// dangling index entry is a CBMC pointer-check failure as well.
    pub(crate) fn verif_wf(&self) -> bool
    where
        K: Eq,
    {
        unsafe {
            if !(*self.head).prev.is_null() || !(*self.tail).next.is_null() {
                return false;
            }
            if self.head == self.tail {
                return false;
            }
            let (nodes, n, complete) = self.verif_nodes();
            if !complete {
                return false;
            }
            // back links
            let mut ok = true;
            let mut prev = self.head;
            let mut i = 0;
            while i < NMAX {
                if i < n {
                    if (*nodes[i]).prev != prev {
                        ok = false;
                    }
                    if nodes[i] == self.head || nodes[i] == self.tail {
                        ok = false;
                    }
                    prev = nodes[i];
                }
                i += 1;
            }
            if (*self.tail).prev != prev {
                ok = false;
            }
            // index: exactly n entries, each a distinct linked node, keyed by the address of its own key
            if self.map.len() != n {
                return false;
            }
            let mut j = 0;
            while j < NMAX {
                if j < n {
                    let (kr, nn) = self.map.verif_slot(j);
                    let np = nn.as_ptr();
                    if kr.k != (*np).key.as_ptr() as *const K {
                        ok = false;
                    }
                    let mut hits = 0;
                    let mut i = 0;
                    while i < NMAX {
                        if i < n && nodes[i] == np {
                            hits += 1;
                        }
                        i += 1;
                    }
                    if hits != 1 {
                        ok = false;
                    }
                    let mut j2 = 0;
                    while j2 < NMAX {
                        if j2 < j && self.map.verif_slot(j2).1.as_ptr() == np {
                            ok = false;
                        }
                        j2 += 1;
                    }
                }
                j += 1;
            }
            // keys pairwise distinct
            let mut i = 0;
            while i < NMAX {
                let mut j = i + 1;
                while j < NMAX {
                    if j < n && *(*nodes[i]).key.as_ptr() == *(*nodes[j]).key.as_ptr() {
                        ok = false;
                    }
                    j += 1;
                }
                i += 1;
            }
            ok
        }
    }
}

#[cfg(kani)]
impl<K: Hash + Eq, V, E: OnEvictCallback, S: BuildHasher> RawLRU<K, V, E, S> {
    /// State builder: an arbitrary list is constructed directly (nodes allocated, linked and indexed)
    /// without going through any operation under test.  items[0] is the most recent entry.
    pub(crate) fn verif_from_parts(cap: usize, hasher: S, cb: Option<E>, n: usize, mut item: impl FnMut(usize) -> (K, V)) -> Self {
        let mut l = Self::construct(cap, HashMap::with_capacity_and_hasher(cap, hasher), cb);
        let mut i = 0;
        while i < NMAX {
            if i < n {
                let (k, v) = item(i);
                unsafe {
                    let node = Box::into_raw(Box::new(EntryNode::new(k, v)));
                    let last = (*l.tail).prev;
                    (*node).prev = last;
                    (*node).next = l.tail;
                    (*last).next = node;
                    (*l.tail).prev = node;
                    l.map.verif_push(KeyRef { k: (*node).key.as_ptr() }, NonNull::new_unchecked(node));
                }
            }
            i += 1;
        }
        l
    }
}

#[cfg(kani)]
#[path = "/verif/kani/harness_raw.rs"]
pub(crate) mod harness;

#[cfg(kani)]
#[path = "/verif/kani/harness_raw_iter.rs"]
mod harness_iter;

#[cfg(kani)]
#[path = "/verif/kani/harness_raw_cb.rs"]
mod harness_cb;

#[cfg(kani)]
#[path = "/verif/kani/harness_raw_life.rs"]
mod harness_life;
