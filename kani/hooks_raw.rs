// Verification hooks for src/lru/raw.rs (child module of crate::lru::raw, so it sees private fields).
// Compiled only with --features verif-hooks.  Outside Kani it offers only the read-only abstract view.
#![allow(missing_docs, dead_code, unused_imports)]

use super::*;
pub use crate::verif_hooks::spec::{Abs, Vid, NMAX};

impl<K, V, E, S> RawLRU<K, V, E, S> {
    /// abstract view: (cap, entries most-recent first), read by following `next` from the head sentinel
    #[doc(hidden)]
    pub fn verif_abs(&self) -> Abs
    where
        K: Vid,
        V: Vid,
    {
        let mut a = Abs::empty(self.cap);
        unsafe {
            let mut p = (*self.head).next;
            let mut i = 0;
            while i < NMAX {
                if p != self.tail {
                    a.k[i] = (*(*p).key.as_ptr()).vid();
                    a.v[i] = (*(*p).val.as_ptr()).vid();
                    a.n += 1;
                    p = (*p).next;
                }
                i += 1;
            }
            a.complete = p == self.tail;
        }
        a
    }
}

#[cfg(kani)]
impl<K, V, E, S> RawLRU<K, V, E, S> {
    /// addresses of the linked nodes, head side first (bounded walk)
    pub(crate) fn verif_nodes(&self) -> ([*mut EntryNode<K, V>; NMAX], usize, bool) {
        let mut nodes = [core::ptr::null_mut(); NMAX];
        let mut n = 0;
        unsafe {
            let mut p = (*self.head).next;
            let mut i = 0;
            while i < NMAX {
                if p != self.tail {
                    nodes[i] = p;
                    n += 1;
                    p = (*p).next;
                }
                i += 1;
            }
            (nodes, n, p == self.tail)
        }
    }

    /// One pass over the list that yields both the abstract view and the verdict of the representation
    /// invariant of DESIGN.md 4.1 (the second sentence of C03): head.prev and tail.next are null; following
    /// `next` from the head sentinel reaches the tail sentinel within NMAX steps; `x.next.prev == x` on every
    /// link; the index has exactly one entry per linked node, each keyed by the ADDRESS of its own node's key;
    /// keys pairwise distinct.  Every linked node is dereferenced (CBMC checks those reads).
    pub(crate) fn verif_check(&self) -> (Abs, bool)
    where
        K: Vid,
        V: Vid,
    {
        let mut a = Abs::empty(self.cap);
        let mut ok = true;
        let mut nodes: [*mut EntryNode<K, V>; NMAX] = [core::ptr::null_mut(); NMAX];
        let mut keyaddr: [*const K; NMAX] = [core::ptr::null(); NMAX];
        unsafe {
            if !(*self.head).prev.is_null() || !(*self.tail).next.is_null() || self.head == self.tail {
                ok = false;
            }
            let mut prev = self.head;
            let mut p = (*self.head).next;
            let mut i = 0;
            while i < NMAX {
                if p != self.tail {
                    let node = &*p;
                    if node.prev != prev || p == self.head {
                        ok = false;
                    }
                    nodes[i] = p;
                    keyaddr[i] = node.key.as_ptr();
                    a.k[i] = (*node.key.as_ptr()).vid();
                    a.v[i] = (*node.val.as_ptr()).vid();
                    a.n += 1;
                    prev = p;
                    p = node.next;
                }
                i += 1;
            }
            a.complete = p == self.tail;
            if !a.complete || (*self.tail).prev != prev {
                ok = false;
            }
        }
        if self.map.len() != a.n {
            ok = false;
        } else {
            let mut j = 0;
            while j < NMAX {
                if j < a.n {
                    let (kr, nn) = self.map.verif_slot(j);
                    let np = nn.as_ptr();
                    let mut hits = 0;
                    let mut i = 0;
                    while i < NMAX {
                        if i < a.n && nodes[i] == np && keyaddr[i] == kr.k {
                            hits += 1;
                        }
                        i += 1;
                    }
                    if hits != 1 {
                        ok = false;
                    }
                    let mut j2 = 0;
                    while j2 < NMAX {
                        if j2 < j && self.map.verif_slot(j2).1.as_ptr() == np {
                            ok = false;
                        }
                        j2 += 1;
                    }
                }
                j += 1;
            }
        }
        if !a.distinct() {
            ok = false;
        }
        (a, ok)
    }

    pub(crate) fn verif_wf(&self) -> bool
    where
        K: Vid,
        V: Vid,
    {
        self.verif_check().1
    }
}

#[cfg(kani)]
impl<K: Hash + Eq, V, E: OnEvictCallback, S: BuildHasher> RawLRU<K, V, E, S> {
    /// State builder: an arbitrary list is constructed directly (nodes allocated, linked and indexed)
    /// without going through any operation under test.  items[0] is the most recent entry.
    pub(crate) fn verif_from_parts(cap: usize, hasher: S, cb: Option<E>, n: usize, mut item: impl FnMut(usize) -> (K, V)) -> Self {
        let mut l = Self::construct(cap, HashMap::with_capacity_and_hasher(cap, hasher), cb);
        let mut i = 0;
        while i < NMAX {
            if i < n {
                let (k, v) = item(i);
                unsafe {
                    let node = Box::into_raw(Box::new(EntryNode::new(k, v)));
                    let last = (*l.tail).prev;
                    (*node).prev = last;
                    (*node).next = l.tail;
                    (*last).next = node;
                    (*l.tail).prev = node;
                    l.map.verif_push(KeyRef { k: (*node).key.as_ptr() }, NonNull::new_unchecked(node));
                }
            }
            i += 1;
        }
        l
    }
}

#[cfg(kani)]
impl<K: Hash + Eq, V, E: OnEvictCallback, S: BuildHasher> RawLRU<K, V, E, S> {
    /// Same abstract state as `verif_from_parts`, different concrete representation: nodes are allocated
    /// from the least recent end and the index slots are filled in the opposite order (used by the two-run
    /// relational contracts of C17: results must not depend on addresses or index order).
    pub(crate) fn verif_from_parts_rev(cap: usize, hasher: S, cb: Option<E>, n: usize, mut item: impl FnMut(usize) -> (K, V)) -> Self {
        let mut l = Self::construct(cap, HashMap::with_capacity_and_hasher(cap, hasher), cb);
        let mut j = 0;
        while j < NMAX {
            if j < n {
                let i = n - 1 - j;
                let (k, v) = item(i);
                unsafe {
                    let node = Box::into_raw(Box::new(EntryNode::new(k, v)));
                    // link right after the head sentinel: entries are created from the LRU end
                    let first = (*l.head).next;
                    (*node).next = first;
                    (*node).prev = l.head;
                    (*first).prev = node;
                    (*l.head).next = node;
                    l.map.verif_push(KeyRef { k: (*node).key.as_ptr() }, NonNull::new_unchecked(node));
                }
            }
            j += 1;
        }
        l
    }
}

#[cfg(kani)]
#[path = "/verif/kani/harness_raw.rs"]
pub(crate) mod harness;

#[cfg(kani)]
#[path = "/verif/kani/harness_raw_iter.rs"]
mod harness_iter;

#[cfg(kani)]
#[path = "/verif/kani/harness_raw_cb.rs"]
mod harness_cb;

#[cfg(kani)]
#[path = "/verif/kani/harness_raw_life.rs"]
mod harness_life;
