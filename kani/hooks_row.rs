// Verification hooks for src/lfu/tinylfu/sketch/count_min_row.rs
#![allow(missing_docs, dead_code, unused_imports)]
use super::*;

impl CountMinRow {
    /// build a row from raw bytes (two 4-bit counters per byte)
    pub(crate) fn verif_from_bytes(bytes: alloc::vec::Vec<u8>) -> Self {
        CountMinRow(bytes)
    }
    pub(crate) fn verif_set_byte(&mut self, i: usize, b: u8) {
        self.0[i] = b;
    }
    pub(crate) fn verif_bytes(&self) -> &[u8] {
        &self.0
    }
    /// counter i of the abstract view (nibble i%2 of byte i/2), read directly from the bytes
    pub(crate) fn verif_ctr(&self, i: usize) -> u8 {
        let b = self.0[i / 2];
        if i % 2 == 1 { b >> 4 } else { b & 0x0f }
    }
}
