// Verification hooks for src/lfu/sampled.rs
#![allow(missing_docs, dead_code, unused_imports)]
use super::*;

#[cfg(kani)]
impl<K: Hash + Eq, KH: KeyHasher<K>, S: BuildHasher> SampledLFU<K, KH, S> {
    /// arbitrary tracker state: table entries are pushed straight into the index
    pub(crate) fn verif_from_parts(samples: usize, max_cost: i64, used: i64, kh: KH, hasher: S, n: usize, item: impl Fn(usize) -> (u64, i64)) -> Self {
        let mut key_costs = HashMap::with_hasher(hasher);
        let mut i = 0;
        while i < crate::verif_hooks::spec::NMAX {
            if i < n {
                let (k, c) = item(i);
                key_costs.verif_push(k, c);
            }
            i += 1;
        }
        SampledLFU { samples, max_cost: AtomicI64::new(max_cost), used, key_costs, kh, marker: Default::default() }
    }

    pub(crate) fn verif_used(&self) -> i64 {
        self.used
    }
    pub(crate) fn verif_len(&self) -> usize {
        self.key_costs.len()
    }
    pub(crate) fn verif_cost_of(&self, k: u64) -> Option<i64> {
        self.key_costs.get(&k).copied()
    }
    pub(crate) fn verif_samples(&self) -> usize {
        self.samples
    }
}

#[cfg(kani)]
#[path = "/verif/kani/harness_sampled.rs"]
mod harness;
