// Verification hooks for src/lru/segmented.rs (child module: sees private fields).
#![allow(missing_docs, dead_code, unused_imports)]

use super::*;
pub use crate::verif_hooks::spec::{Abs, Vid, NMAX};

pub use crate::verif_hooks::spec::SegAbs;

impl<K, V, FH, RH> SegmentedCache<K, V, FH, RH> {
    /// abstract view: both segment views plus the configured sizes
    #[doc(hidden)]
    pub fn verif_abs(&self) -> SegAbs
    where
        K: Vid,
        V: Vid,
    {
        SegAbs {
            probationary: self.probationary.verif_abs(),
            protected: self.protected.verif_abs(),
            probationary_size: self.probationary_size,
            protected_size: self.protected_size,
        }
    }
}

#[cfg(kani)]
impl<K: Hash + Eq, V, FH: BuildHasher, RH: BuildHasher> SegmentedCache<K, V, FH, RH> {
    pub(crate) fn verif_from_parts(
        probationary: RawLRU<K, V, DefaultEvictCallback, RH>,
        protected: RawLRU<K, V, DefaultEvictCallback, FH>,
    ) -> Self {
        SegmentedCache {
            probationary_size: probationary.cap(),
            probationary,
            protected_size: protected.cap(),
            protected,
        }
    }

    pub(crate) fn verif_check(&self) -> (SegAbs, bool)
    where
        K: Vid,
        V: Vid,
    {
        let (pb, w1) = self.probationary.verif_check();
        let (pt, w2) = self.protected.verif_check();
        (
            SegAbs { probationary: pb, protected: pt, probationary_size: self.probationary_size, protected_size: self.protected_size },
            w1 && w2,
        )
    }

    pub(crate) fn verif_wf(&self) -> bool
    where
        K: Vid,
        V: Vid,
    {
        self.verif_check().1
    }

    pub(crate) fn verif_forget(self) {
        core::mem::forget(self)
    }
}

#[cfg(kani)]
#[path = "/verif/kani/harness_segmented.rs"]
pub(crate) mod harness;
