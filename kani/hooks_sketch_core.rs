// Verification hooks for src/lfu/tinylfu/sketch/count_min_sketch_core.rs (no_std build)
#![allow(missing_docs, dead_code, unused_imports)]
use super::*;

impl CountMinSketch {
    pub(crate) fn verif_from_parts(rows: [CountMinRow; DEPTH], _seeds: [u64; DEPTH], mask: u64) -> Self {
        CountMinSketch { rows, mask }
    }
    pub(crate) fn verif_mask(&self) -> u64 {
        self.mask
    }
    pub(crate) fn verif_row(&self, r: usize) -> &CountMinRow {
        &self.rows[r]
    }
    pub(crate) fn verif_seeds(&self) -> [u64; DEPTH] {
        [0; DEPTH]
    }
    pub(crate) fn verif_zero_like(&self) -> Self {
        let w = (self.mask + 1) / 2;
        CountMinSketch { rows: [CountMinRow::new(w), CountMinRow::new(w), CountMinRow::new(w), CountMinRow::new(w)], mask: self.mask }
    }
}

#[cfg(kani)]
#[path = "/verif/kani/harness_sketch.rs"]
mod harness;
