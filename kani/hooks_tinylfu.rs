// Verification hooks for src/lfu/tinylfu.rs (child module: sees private fields and the private sketch/bloom modules)
#![allow(missing_docs, dead_code, unused_imports)]
use super::*;
use crate::lfu::tinylfu::sketch::CountMinRow;
use alloc::vec::Vec;

pub const EST_COUNTERS: usize = 8;

/// abstract view of the estimator: window counter, sample size, the 4 x width counters, doorkeeper word 0
#[derive(Clone, Copy, Debug)]
pub struct EstAbs {
    pub w: usize,
    pub samples: usize,
    pub width: usize,
    pub c: [[u8; EST_COUNTERS]; 4],
    pub bits: u64,
}

impl PartialEq for EstAbs {
    // element-wise (no memcmp over the 32 counter bytes: keeps loop bounds at 8)
    fn eq(&self, o: &EstAbs) -> bool {
        let mut ok = self.w == o.w && self.samples == o.samples && self.width == o.width && self.bits == o.bits;
        let mut r = 0;
        while r < 4 {
            let mut i = 0;
            while i < EST_COUNTERS {
                if self.c[r][i] != o.c[r][i] {
                    ok = false;
                }
                i += 1;
            }
            r += 1;
        }
        ok
    }
}
impl Eq for EstAbs {}

impl<K: Hash + Eq, KH: KeyHasher<K>> TinyLFU<K, KH> {
    pub(crate) fn verif_abs(&self) -> EstAbs {
        let width = (self.ctr.verif_mask() + 1) as usize;
        let mut c = [[0u8; EST_COUNTERS]; 4];
        let mut r = 0;
        while r < 4 {
            let mut i = 0;
            while i < EST_COUNTERS {
                if i < width {
                    c[r][i] = self.ctr.verif_row(r).verif_ctr(i);
                }
                i += 1;
            }
            r += 1;
        }
        EstAbs { w: self.w, samples: self.samples, width, c, bits: self.doorkeeper.verif_word(0) }
    }

    /// small arbitrary-but-valid estimator: sketch of `nbytes` bytes per row (2*nbytes counters, power of two),
    /// one-word doorkeeper with `locs` probes
    pub(crate) fn verif_small(rows: [[u8; 4]; 4], nbytes: usize, seeds: [u64; 4], bits: u64, locs: u64, samples: usize, w: usize, kh: KH) -> Self {
        let mk = |r: usize| {
            let mut row = CountMinRow::new(nbytes as u64);
            let mut i = 0;
            while i < 4 {
                if i < nbytes {
                    row.verif_set_byte(i, rows[r][i]);
                }
                i += 1;
            }
            row
        };
        let ctr = CountMinSketch::verif_from_parts([mk(0), mk(1), mk(2), mk(3)], seeds, (2 * nbytes - 1) as u64);
        let mut words: Vec<u64> = alloc::vec![0u64; 1];
        words[0] = bits;
        TinyLFU { ctr, doorkeeper: Bloom::verif_small(words, locs), samples, w, kh, marker: Default::default() }
    }

    pub(crate) fn verif_doorkeeper(&self) -> &Bloom {
        &self.doorkeeper
    }
}

#[cfg(kani)]
#[path = "/verif/kani/harness_tinylfu.rs"]
mod harness;
