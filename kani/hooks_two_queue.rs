// Verification hooks for src/lru/two_queue.rs (child module: sees private fields).
#![allow(missing_docs, dead_code, unused_imports)]

use super::*;
pub use crate::verif_hooks::spec::{Abs, Vid, NMAX};

#[derive(Clone, Copy, PartialEq, Eq, Debug)]
pub struct TqAbs {
    pub size: usize,
    /// quota of the recent queue
    pub recent_size: usize,
    pub recent: Abs,
    pub frequent: Abs,
    pub ghost: Abs,
}

impl<K: Hash + Eq, V, RH, FH, GH> TwoQueueCache<K, V, RH, FH, GH> {
    #[doc(hidden)]
    pub fn verif_abs(&self) -> TqAbs
    where
        K: Vid,
        V: Vid,
    {
        TqAbs {
            size: self.size,
            recent_size: self.recent_size,
            recent: self.recent.verif_abs(),
            frequent: self.frequent.verif_abs(),
            ghost: self.ghost.verif_abs(),
        }
    }
}

#[cfg(kani)]
impl<K: Hash + Eq, V, RH: BuildHasher, FH: BuildHasher, GH: BuildHasher> TwoQueueCache<K, V, RH, FH, GH> {
    pub(crate) fn verif_from_parts(
        size: usize,
        recent_size: usize,
        recent: RawLRU<K, V, DefaultEvictCallback, RH>,
        frequent: RawLRU<K, V, DefaultEvictCallback, FH>,
        ghost: RawLRU<K, V, DefaultEvictCallback, GH>,
    ) -> Self {
        TwoQueueCache { size, recent_size, recent, frequent, ghost }
    }

    pub(crate) fn verif_check(&self) -> (TqAbs, bool)
    where
        K: Vid,
        V: Vid,
    {
        let (r, w1) = self.recent.verif_check();
        let (f, w2) = self.frequent.verif_check();
        let (g, w3) = self.ghost.verif_check();
        (TqAbs { size: self.size, recent_size: self.recent_size, recent: r, frequent: f, ghost: g }, w1 && w2 && w3)
    }

    pub(crate) fn verif_forget(self) {
        core::mem::forget(self)
    }
}

#[cfg(kani)]
#[path = "/verif/kani/harness_two_queue.rs"]
pub(crate) mod harness;
