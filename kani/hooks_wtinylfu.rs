// Verification hooks for src/lfu/wtinylfu.rs (child module: sees private fields)
#![allow(missing_docs, dead_code, unused_imports)]
use super::*;
pub use crate::verif_hooks::spec::{Abs, SegAbs, Vid, NMAX};

#[cfg(kani)]
impl<K: Hash + Eq, V, KH: KeyHasher<K>, FH: BuildHasher, RH: BuildHasher, WH: BuildHasher> WTinyLFUCache<K, V, KH, FH, RH, WH> {
    pub(crate) fn verif_from_parts(tinylfu: TinyLFU<K, KH>, lru: LRUCache<K, V, WH>, slru: SegmentedCache<K, V, FH, RH>) -> Self {
        WTinyLFUCache { tinylfu, lru, slru }
    }

    /// (window view, main view, all lists well formed)
    pub(crate) fn verif_check(&self) -> (Abs, SegAbs, bool)
    where
        K: Vid,
        V: Vid,
    {
        let (w, w1) = self.lru.verif_check();
        let (s, w2) = self.slru.verif_check();
        (w, s, w1 && w2)
    }

    pub(crate) fn verif_estimator(&self) -> &TinyLFU<K, KH> {
        &self.tinylfu
    }

    pub(crate) fn verif_forget(self) {
        core::mem::forget(self)
    }
}

#[cfg(kani)]
#[path = "/verif/kani/harness_wtinylfu.rs"]
pub(crate) mod harness;
