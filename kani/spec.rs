// Abstract views and pure spec functions shared by all contract harnesses (and by the replay tool).
// A list view is the sequence of (key id, value id) pairs, most recently used first, plus its capacity.
#![allow(missing_docs, dead_code)]

/// longest list a view can hold: N + 1 where N is the list-length bound of the build (VERIF_N, default 3)
pub const NMAX: usize = match option_env!("VERIF_N") {
    Some(s) => (s.as_bytes()[0] - b'0') as usize + 1,
    None => 4,
};

/// maps keys/values to small ids so that views of drop-tracked payloads are plain data
pub trait Vid {
    fn vid(&self) -> u8;
}
impl Vid for u8 {
    fn vid(&self) -> u8 {
        *self
    }
}
impl Vid for u64 {
    fn vid(&self) -> u8 {
        *self as u8
    }
}
impl<T: Vid + ?Sized> Vid for alloc::boxed::Box<T> {
    fn vid(&self) -> u8 {
        (**self).vid()
    }
}

#[derive(Clone, Copy, Debug)]
pub struct Abs {
    pub cap: usize,
    pub n: usize,
    pub k: [u8; NMAX],
    pub v: [u8; NMAX],
    /// false when the walk from the head sentinel did not reach the tail sentinel within NMAX steps
    pub complete: bool,
}

impl PartialEq for Abs {
    // element-wise (no memcmp: cheaper for CBMC)
    fn eq(&self, o: &Abs) -> bool {
        let mut ok = self.cap == o.cap && self.n == o.n && self.complete == o.complete;
        let mut i = 0;
        while i < NMAX {
            if self.k[i] != o.k[i] || self.v[i] != o.v[i] {
                ok = false;
            }
            i += 1;
        }
        ok
    }
}
impl Eq for Abs {}

impl Abs {
    pub fn empty(cap: usize) -> Abs {
        Abs { cap, n: 0, k: [0; NMAX], v: [0; NMAX], complete: true }
    }

    /// canonical form: slots >= n zeroed (so that `==` is view equality)
    pub fn canon(mut self) -> Abs {
        let mut i = 0;
        while i < NMAX {
            if i >= self.n {
                self.k[i] = 0;
                self.v[i] = 0;
            }
            i += 1;
        }
        self
    }

    pub fn pos(&self, key: u8) -> Option<usize> {
        let mut r = None;
        let mut i = NMAX;
        while i > 0 {
            i -= 1;
            if i < self.n && self.k[i] == key {
                r = Some(i);
            }
        }
        r
    }

    pub fn has(&self, key: u8) -> bool {
        self.pos(key).is_some()
    }

    pub fn val_of(&self, key: u8) -> Option<u8> {
        match self.pos(key) {
            Some(i) => Some(self.v[i]),
            None => None,
        }
    }

    pub fn distinct(&self) -> bool {
        let mut ok = true;
        let mut i = 0;
        while i < NMAX {
            let mut j = i + 1;
            while j < NMAX {
                if j < self.n && self.k[i] == self.k[j] {
                    ok = false;
                }
                j += 1;
            }
            i += 1;
        }
        ok
    }

    /// (k, v) becomes the most recent entry; requires n < NMAX
    pub fn push_front(&self, key: u8, val: u8) -> Abs {
        let mut a = *self;
        let mut i = NMAX - 1;
        while i > 0 {
            a.k[i] = self.k[i - 1];
            a.v[i] = self.v[i - 1];
            i -= 1;
        }
        a.k[0] = key;
        a.v[0] = val;
        a.n = self.n + 1;
        a.canon()
    }

    /// entry at index `at` removed, order of the rest kept; requires at < n
    pub fn remove_at(&self, at: usize) -> Abs {
        let mut a = *self;
        let mut i = 0;
        while i + 1 < NMAX {
            if i >= at {
                a.k[i] = self.k[i + 1];
                a.v[i] = self.v[i + 1];
            }
            i += 1;
        }
        a.n = self.n - 1;
        a.canon()
    }

    pub fn drop_last(&self) -> Abs {
        let mut a = *self;
        a.n = self.n - 1;
        a.canon()
    }

    /// entry `at` moved to the front (optionally with a new value)
    pub fn touch(&self, at: usize, newval: Option<u8>) -> Abs {
        let key = self.k[at];
        let val = match newval {
            Some(v) => v,
            None => self.v[at],
        };
        self.remove_at(at).push_front(key, val)
    }

    pub fn with_val(&self, at: usize, val: u8) -> Abs {
        let mut a = *self;
        a.v[at] = val;
        a
    }

    pub fn with_cap(&self, cap: usize) -> Abs {
        let mut a = *self;
        a.cap = cap;
        a
    }

    /// first `m` entries kept
    pub fn truncate(&self, m: usize) -> Abs {
        let mut a = *self;
        if m < a.n {
            a.n = m;
        }
        a.canon()
    }

    pub fn last(&self) -> Option<(u8, u8)> {
        if self.n == 0 || self.n > NMAX {
            None
        } else {
            Some((self.k[self.n - 1], self.v[self.n - 1]))
        }
    }

    pub fn first(&self) -> Option<(u8, u8)> {
        if self.n == 0 {
            None
        } else {
            Some((self.k[0], self.v[0]))
        }
    }

    /// same key->value map, order ignored
    pub fn same_map(&self, o: &Abs) -> bool {
        if self.n != o.n {
            return false;
        }
        let mut ok = true;
        let mut i = 0;
        while i < NMAX {
            if i < self.n {
                match o.val_of(self.k[i]) {
                    Some(v) => {
                        if v != self.v[i] {
                            ok = false
                        }
                    }
                    None => ok = false,
                }
            }
            i += 1;
        }
        ok
    }

    pub fn view_eq(&self, o: &Abs) -> bool {
        self.canon() == o.canon()
    }

    /// no key of self occurs in o
    pub fn disjoint(&self, o: &Abs) -> bool {
        let mut ok = true;
        let mut i = 0;
        while i < NMAX {
            if i < self.n && o.has(self.k[i]) {
                ok = false;
            }
            i += 1;
        }
        ok
    }
}

/// PutResult over ids, for comparing against the spec
#[derive(Clone, Copy, PartialEq, Eq, Debug)]
pub enum PR {
    Put,
    Update(u8),
    Evicted(u8, u8),
    EvictedAndUpdate(u8, u8, u8),
}

pub fn pr_of<K: Vid, V: Vid>(r: &crate::PutResult<K, V>) -> PR {
    match r {
        crate::PutResult::Put => PR::Put,
        crate::PutResult::Update(v) => PR::Update(v.vid()),
        crate::PutResult::Evicted { key, value } => PR::Evicted(key.vid(), value.vid()),
        crate::PutResult::EvictedAndUpdate { evicted, update } => {
            PR::EvictedAndUpdate(evicted.0.vid(), evicted.1.vid(), update.vid())
        }
    }
}

/// the RawLRU `put` contract at view level (DESIGN.md 4.1): returns (expected view, expected result)
pub fn spec_lru_put(pre: &Abs, k: u8, v: u8) -> (Abs, PR) {
    match pre.pos(k) {
        Some(i) => (pre.touch(i, Some(v)), PR::Update(pre.v[i])),
        None => {
            if pre.cap == 0 {
                (*pre, PR::Evicted(k, v))
            } else if pre.n < pre.cap {
                (pre.push_front(k, v), PR::Put)
            } else {
                let (lk, lv) = (pre.k[pre.n - 1], pre.v[pre.n - 1]);
                (pre.drop_last().push_front(k, v), PR::Evicted(lk, lv))
            }
        }
    }
}

// ------------------------------------------------------------------ several lists at once (composite caches)

pub fn lookup(lists: &[&Abs], key: u8) -> Option<u8> {
    let mut r = None;
    let mut li = lists.len();
    while li > 0 {
        li -= 1;
        if let Some(v) = lists[li].val_of(key) {
            r = Some(v);
        }
    }
    r
}

pub fn total(lists: &[&Abs]) -> usize {
    let mut t = 0;
    let mut li = 0;
    while li < lists.len() {
        t += lists[li].n;
        li += 1;
    }
    t
}

/// number of lists that hold `key`
pub fn holders(lists: &[&Abs], key: u8) -> usize {
    let mut t = 0;
    let mut li = 0;
    while li < lists.len() {
        if lists[li].has(key) {
            t += 1;
        }
        li += 1;
    }
    t
}

/// every key is held by at most one list, and each list has distinct keys
pub fn partitioned(lists: &[&Abs]) -> bool {
    let mut ok = true;
    let mut a = 0;
    while a < lists.len() {
        if !lists[a].distinct() {
            ok = false;
        }
        let mut b = a + 1;
        while b < lists.len() {
            if !lists[a].disjoint(lists[b]) {
                ok = false;
            }
            b += 1;
        }
        a += 1;
    }
    ok
}

/// for every key of `pre` other than `except1`/`except2`: `post` retains it with the same value
pub fn others_kept(pre: &[&Abs], post: &[&Abs], except1: Option<u8>, except2: Option<u8>) -> bool {
    let mut ok = true;
    let mut li = 0;
    while li < pre.len() {
        let l = pre[li];
        let mut i = 0;
        while i < NMAX {
            if i < l.n && Some(l.k[i]) != except1 && Some(l.k[i]) != except2 {
                if lookup(post, l.k[i]) != Some(l.v[i]) {
                    ok = false;
                }
            }
            i += 1;
        }
        li += 1;
    }
    ok
}

/// C12 (relational): the PutResult tells the truth about how the retained set changed.
/// pre/post: all lists whose entries count as retained (resident and, for 2Q/ARC, ghost lists).
pub fn put_result_truthful(pre: &[&Abs], post: &[&Abs], k: u8, v: u8, r: PR) -> bool {
    let before = lookup(pre, k);
    match r {
        PR::Put => before.is_none() && total(post) == total(pre) + 1 && others_kept(pre, post, None, None),
        PR::Update(o) => before == Some(o) && total(post) == total(pre) && others_kept(pre, post, Some(k), None),
        PR::Evicted(ek, ev) => {
            if ek == k {
                // pair handed straight back (capacity 0): nothing changed
                before.is_none() && ev == v && total(post) == total(pre) && others_kept(pre, post, None, None)
            } else {
                before.is_none()
                    && lookup(pre, ek) == Some(ev)
                    && lookup(post, ek).is_none()
                    && total(post) == total(pre)
                    && others_kept(pre, post, Some(ek), None)
            }
        }
        PR::EvictedAndUpdate(ek, ev, o) => {
            before == Some(o)
                && ek != k
                && lookup(pre, ek) == Some(ev)
                && lookup(post, ek).is_none()
                && total(post) + 1 == total(pre)
                && others_kept(pre, post, Some(ek), Some(k))
        }
    }
}

impl Abs {
    /// every entry of self occurs in `o` with the same value, in the same relative order
    pub fn subseq_of(&self, o: &Abs) -> bool {
        let mut ok = true;
        let mut from = 0usize; // next index of o that may still match
        let mut i = 0;
        while i < NMAX {
            if i < self.n {
                let mut found = false;
                let mut j = 0;
                while j < NMAX {
                    if !found && j >= from && j < o.n && o.k[j] == self.k[i] && o.v[j] == self.v[i] {
                        found = true;
                        from = j + 1;
                    }
                    j += 1;
                }
                if !found {
                    ok = false;
                }
            }
            i += 1;
        }
        ok
    }

    /// self without its first entry
    pub fn tail(&self) -> Abs {
        if self.n == 0 {
            *self
        } else {
            self.remove_at(0)
        }
    }
}


// ------------------------------------------------------------------ SegmentedCache view and policy spec (shared with W-TinyLFU)

#[derive(Clone, Copy, PartialEq, Eq, Debug)]
pub struct SegAbs {
    pub probationary: Abs,
    pub protected: Abs,
    pub probationary_size: usize,
    pub protected_size: usize,
}

/// promotion of probationary entry i (optionally storing a new value): the SLRU rule of C07.
/// Returns (probationary', protected').
pub fn spec_promote(pre: &SegAbs, i: usize, newval: Option<u8>) -> (Abs, Abs) {
    let k = pre.probationary.k[i];
    let v = match newval {
        Some(v) => v,
        None => pre.probationary.v[i],
    };
    let pb1 = pre.probationary.remove_at(i);
    if pre.protected.n < pre.protected.cap {
        (pb1, pre.protected.push_front(k, v))
    } else {
        let (dk, dv) = (pre.protected.k[pre.protected.n - 1], pre.protected.v[pre.protected.n - 1]);
        // protected's least-recent entry is demoted to probationary's most-recent end, never evicted
        (pb1.push_front(dk, dv), pre.protected.drop_last().push_front(k, v))
    }
}

/// SegmentedCache::put at view level: (probationary', protected', result)
pub fn spec_seg_put(pre: &SegAbs, k: u8, v: u8) -> (Abs, Abs, PR) {
    if let Some(i) = pre.protected.pos(k) {
        (pre.probationary, pre.protected.touch(i, Some(v)), PR::Update(pre.protected.v[i]))
    } else if let Some(i) = pre.probationary.pos(k) {
        let (pb, pt) = spec_promote(pre, i, Some(v));
        (pb, pt, PR::Update(pre.probationary.v[i]))
    } else {
        let (pb, r) = spec_lru_put(&pre.probationary, k, v);
        (pb, pre.protected, r)
    }
}

/// SegmentedCache::get / get_mut at view level: (probationary', protected')
pub fn spec_seg_get(pre: &SegAbs, k: u8, newval: Option<u8>) -> (Abs, Abs) {
    if let Some(i) = pre.protected.pos(k) {
        (pre.probationary, pre.protected.touch(i, newval))
    } else if let Some(i) = pre.probationary.pos(k) {
        spec_promote(pre, i, newval)
    } else {
        (pre.probationary, pre.protected)
    }
}
