// Dependency contract for `HashMap`, made executable (DESIGN.md 3.4).
//
// Compiled ONLY under cfg(all(kani, feature = "verif-hooks")), where `crate::HashMap` resolves here.
// It is an association list in a fixed array with the API subset the crate calls:
//   * lookup compares the probe, through `Borrow`, with EVERY stored key, i.e. a superset of the key
//     dereferences a real table performs (collisions, rehash), so a stale/dangling `KeyRef` is
//     dereferenced and caught by CBMC's pointer checks whenever some real hasher could catch it;
//   * the BuildHasher is stored and handed back but never consulted: results cannot depend on it
//     (the "for all hashers" quantifier of C02/C17 is discharged by assumption on std/hashbrown);
//   * iteration (`values`, `drain`, `iter`, `into_iter`) starts at a NONDETERMINISTIC rotation:
//     HashMap promises no order, so code whose result depends on it cannot meet a functional
//     postcondition.
// Capacity: VMAP_CAP entries; exceeding it is a failed assertion "[vmap] capacity" (never silently dropped).
#![allow(dead_code, missing_docs)]

use core::borrow::Borrow;
use core::hash::Hash;
use core::marker::PhantomData;
use core::mem::MaybeUninit;

#[cfg(feature = "std")]
pub use std::collections::HashSet;
#[cfg(not(feature = "std"))]
pub use hashbrown::HashSet;

#[cfg(feature = "std")]
type DefaultS = std::collections::hash_map::RandomState;
#[cfg(not(feature = "std"))]
type DefaultS = hashbrown::DefaultHashBuilder;

pub const VMAP_CAP: usize = match option_env!("VERIF_N") {
    Some(s) => (s.as_bytes()[0] - b'0') as usize + 1,
    None => 4,
};

pub struct HashMap<K, V, S = DefaultS> {
    pub(crate) slots: [MaybeUninit<(K, V)>; VMAP_CAP],
    pub(crate) len: usize,
    hasher: S,
    reported_cap: usize,
}

fn uninit_slots<K, V>() -> [MaybeUninit<(K, V)>; VMAP_CAP] {
    // an array of MaybeUninit needs no initialisation
    unsafe { MaybeUninit::<[MaybeUninit<(K, V)>; VMAP_CAP]>::uninit().assume_init() }
}

impl<K, V, S> HashMap<K, V, S> {
    pub fn with_capacity_and_hasher(cap: usize, hasher: S) -> Self {
        HashMap {
            slots: uninit_slots(),
            len: 0,
            hasher,
            reported_cap: cap,
        }
    }

    pub fn with_hasher(hasher: S) -> Self {
        Self::with_capacity_and_hasher(0, hasher)
    }

    pub fn capacity(&self) -> usize {
        self.reported_cap
    }

    pub fn hasher(&self) -> &S {
        &self.hasher
    }

    pub fn len(&self) -> usize {
        self.len
    }

    pub fn is_empty(&self) -> bool {
        self.len == 0
    }

    pub fn shrink_to_fit(&mut self) {}

    pub fn clear(&mut self) {
        let mut i = 0;
        while i < VMAP_CAP {
            if i < self.len {
                unsafe { core::ptr::drop_in_place(self.slots[i].as_mut_ptr()) };
            }
            i += 1;
        }
        self.len = 0;
    }

    #[inline]
    fn slot(&self, i: usize) -> &(K, V) {
        unsafe { &*self.slots[i].as_ptr() }
    }

    /// verification helper: append without any key comparison (used by state builders only)
    pub(crate) fn verif_push(&mut self, k: K, v: V) {
        assert!(self.len < VMAP_CAP, "[vmap] capacity");
        self.slots[self.len] = MaybeUninit::new((k, v));
        self.len += 1;
    }

    /// verification helper: i-th stored pair (i < len)
    pub(crate) fn verif_slot(&self, i: usize) -> (&K, &V) {
        let s = self.slot(i);
        (&s.0, &s.1)
    }

    pub fn values(&self) -> Iter<'_, K, V, ValuesProj> {
        Iter::new(self)
    }

    pub fn iter(&self) -> Iter<'_, K, V, PairProj> {
        Iter::new(self)
    }

    pub fn drain(&mut self) -> Drain<K, V> {
        let n = self.len;
        self.len = 0;
        let start: usize = kani::any();
        kani::assume(start < VMAP_CAP && (n == 0 || start < n));
        let slots = core::mem::replace(&mut self.slots, uninit_slots());
        Drain {
            slots,
            n,
            start,
            done: 0,
        }
    }
}

impl<K: Eq + Hash, V, S> HashMap<K, V, S> {
    fn find<Q>(&self, q: &Q) -> Option<usize>
    where
        K: Borrow<Q>,
        Q: Hash + Eq + ?Sized,
    {
        // compare with EVERY stored key (no early exit): superset of a real table's key derefs
        let mut found: Option<usize> = None;
        let mut i = 0;
        while i < VMAP_CAP {
            if i < self.len {
                if self.slot(i).0.borrow() == q && found.is_none() {
                    found = Some(i);
                }
            }
            i += 1;
        }
        found
    }

    pub fn get<Q>(&self, q: &Q) -> Option<&V>
    where
        K: Borrow<Q>,
        Q: Hash + Eq + ?Sized,
    {
        match self.find(q) {
            Some(i) => Some(&self.slot(i).1),
            None => None,
        }
    }

    pub fn get_mut<Q>(&mut self, q: &Q) -> Option<&mut V>
    where
        K: Borrow<Q>,
        Q: Hash + Eq + ?Sized,
    {
        match self.find(q) {
            Some(i) => Some(unsafe { &mut (*self.slots[i].as_mut_ptr()).1 }),
            None => None,
        }
    }

    pub fn contains_key<Q>(&self, q: &Q) -> bool
    where
        K: Borrow<Q>,
        Q: Hash + Eq + ?Sized,
    {
        self.find(q).is_some()
    }

    pub fn insert(&mut self, k: K, v: V) -> Option<V> {
        match self.find(&k) {
            Some(i) => {
                // std keeps the old key and replaces the value
                let slot = unsafe { &mut *self.slots[i].as_mut_ptr() };
                Some(core::mem::replace(&mut slot.1, v))
            }
            None => {
                self.verif_push(k, v);
                None
            }
        }
    }

    pub fn remove<Q>(&mut self, q: &Q) -> Option<V>
    where
        K: Borrow<Q>,
        Q: Hash + Eq + ?Sized,
    {
        match self.find(q) {
            Some(i) => {
                let (k, v) = unsafe { self.slots[i].as_ptr().read() };
                // move the last entry into the hole (order is unspecified anyway)
                let last = self.len - 1;
                if i != last {
                    let moved = unsafe { self.slots[last].as_ptr().read() };
                    self.slots[i] = MaybeUninit::new(moved);
                }
                self.len = last;
                drop(k);
                Some(v)
            }
            None => None,
        }
    }
}

impl<K, V, S> Drop for HashMap<K, V, S> {
    fn drop(&mut self) {
        self.clear();
    }
}

impl<K: Clone, V: Clone, S: Clone> Clone for HashMap<K, V, S> {
    fn clone(&self) -> Self {
        let mut m = HashMap::with_capacity_and_hasher(self.reported_cap, self.hasher.clone());
        let mut i = 0;
        while i < VMAP_CAP {
            if i < self.len {
                let s = self.slot(i);
                m.verif_push(s.0.clone(), s.1.clone());
            }
            i += 1;
        }
        m
    }
}

pub trait Proj<'a, K: 'a, V: 'a> {
    type Out;
    fn proj(p: &'a (K, V)) -> Self::Out;
}
pub struct ValuesProj;
pub struct PairProj;
impl<'a, K: 'a, V: 'a> Proj<'a, K, V> for ValuesProj {
    type Out = &'a V;
    fn proj(p: &'a (K, V)) -> &'a V {
        &p.1
    }
}
impl<'a, K: 'a, V: 'a> Proj<'a, K, V> for PairProj {
    type Out = (&'a K, &'a V);
    fn proj(p: &'a (K, V)) -> (&'a K, &'a V) {
        (&p.0, &p.1)
    }
}

pub struct Iter<'a, K, V, P> {
    slots: &'a [MaybeUninit<(K, V)>; VMAP_CAP],
    n: usize,
    start: usize,
    done: usize,
    p: PhantomData<P>,
}

impl<'a, K, V, P> Iter<'a, K, V, P> {
    fn new<S>(m: &'a HashMap<K, V, S>) -> Self {
        let start: usize = kani::any();
        kani::assume(start < VMAP_CAP && (m.len == 0 || start < m.len));
        Iter {
            slots: &m.slots,
            n: m.len,
            start,
            done: 0,
            p: PhantomData,
        }
    }
}

impl<'a, K: 'a, V: 'a, P: Proj<'a, K, V>> Iterator for Iter<'a, K, V, P> {
    type Item = P::Out;
    fn next(&mut self) -> Option<P::Out> {
        if self.done >= self.n {
            return None;
        }
        let mut idx = self.start + self.done;
        if idx >= self.n {
            idx -= self.n;
        }
        self.done += 1;
        Some(P::proj(unsafe { &*self.slots[idx].as_ptr() }))
    }
}

impl<'a, K, V, S> IntoIterator for &'a HashMap<K, V, S> {
    type Item = (&'a K, &'a V);
    type IntoIter = Iter<'a, K, V, PairProj>;
    fn into_iter(self) -> Self::IntoIter {
        Iter::new(self)
    }
}

pub struct Drain<K, V> {
    slots: [MaybeUninit<(K, V)>; VMAP_CAP],
    n: usize,
    start: usize,
    done: usize,
}

impl<K, V> Iterator for Drain<K, V> {
    type Item = (K, V);
    fn next(&mut self) -> Option<(K, V)> {
        if self.done >= self.n {
            return None;
        }
        let mut idx = self.start + self.done;
        if idx >= self.n {
            idx -= self.n;
        }
        self.done += 1;
        Some(unsafe { self.slots[idx].as_ptr().read() })
    }
}

impl<K, V> Drop for Drain<K, V> {
    fn drop(&mut self) {
        while let Some(p) = self.next() {
            drop(p);
        }
    }
}

impl<K, V, S> IntoIterator for HashMap<K, V, S> {
    type Item = (K, V);
    type IntoIter = Drain<K, V>;
    fn into_iter(mut self) -> Drain<K, V> {
        self.drain()
    }
}
