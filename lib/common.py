"""Shared helpers for the /verif driver: paths, hashing, cache, evidence, findings."""
import hashlib, json, os, subprocess, sys, time

VERIF = os.path.dirname(os.path.dirname(os.path.abspath(__file__)))
REPO = os.environ.get('VERIF_REPO', '/repo')
CACHE = os.path.join(VERIF, '.cache')
BUILD = os.path.join(VERIF, 'build')
EVIDENCE = os.path.join(VERIF, 'evidence')
REPLAYS = os.path.join(VERIF, 'replays')

EXIT_OK, EXIT_VIOLATION, EXIT_UNDECIDED = 0, 1, 2


def sh(cmd, cwd=None, env=None, timeout=None, stdin=None, mem_gb=None):
    e = dict(os.environ)
    e.update({'CARGO_NET_OFFLINE': 'true'})
    if env:
        e.update(env)
    t0 = time.time()
    pre = None
    if mem_gb:
        def pre():
            # address-space limit inherited by every child (each CBMC process): a runaway solver is
            # reported as out-of-memory (undecided) instead of taking the machine down
            import resource
            lim = int(mem_gb * (1 << 30))
            resource.setrlimit(resource.RLIMIT_AS, (lim, lim))
    try:
        p = subprocess.run(cmd, cwd=cwd, env=e, stdout=subprocess.PIPE, stderr=subprocess.PIPE,
                           timeout=timeout, input=stdin, text=True, errors='replace', preexec_fn=pre)
        return p.returncode, p.stdout, p.stderr, time.time() - t0
    except subprocess.TimeoutExpired as ex:
        out = ex.stdout.decode(errors='replace') if isinstance(ex.stdout, bytes) else (ex.stdout or '')
        err = ex.stderr.decode(errors='replace') if isinstance(ex.stderr, bytes) else (ex.stderr or '')
        return -9, out, err + '\n[driver] TIMEOUT after %ss' % timeout, time.time() - t0


def tree_hash(paths, exts=('.rs', '.toml', '.lock', '.py', '.json')):
    """hash of file contents under the given files/directories (sorted, relative names included)"""
    h = hashlib.sha256()
    for p in paths:
        if os.path.isfile(p):
            files = [p]
        else:
            files = []
            for root, dirs, fs in os.walk(p):
                dirs[:] = sorted(d for d in dirs if d not in ('target', '.git', '__pycache__', '.cache', 'build'))
                for f in sorted(fs):
                    if f.endswith(exts):
                        files.append(os.path.join(root, f))
        for f in files:
            # a scratch copy of the repository (VERIF_REPO) hashes like /repo itself when its contents are equal
            name = '/repo' + f[len(REPO):] if REPO != '/repo' and f.startswith(REPO + '/') else f
            h.update(name.encode())
            with open(f, 'rb') as fh:
                h.update(fh.read())
    return h.hexdigest()[:24]


def repo_hash():
    return tree_hash([os.path.join(REPO, 'src'), os.path.join(REPO, 'Cargo.toml'), os.path.join(REPO, 'Cargo.lock')])


def cache_get(key):
    if os.environ.get('VERIF_NO_CACHE'):
        return None
    p = os.path.join(CACHE, key + '.json')
    if os.path.exists(p):
        try:
            with open(p) as fh:
                return json.load(fh)
        except Exception:
            return None
    return None


def cache_put(key, val):
    os.makedirs(CACHE, exist_ok=True)
    tmp = os.path.join(CACHE, key + '.json.tmp%d' % os.getpid())
    with open(tmp, 'w') as fh:
        json.dump(val, fh)
    os.replace(tmp, os.path.join(CACHE, key + '.json'))


def load_findings():
    p = os.path.join(VERIF, 'known_findings.json')
    if not os.path.exists(p):
        return dict(findings=[], fixed=[])
    with open(p) as fh:
        return json.load(fh)


def log(*a):
    print(*a, file=sys.stderr, flush=True)
