def run_unit(name, unit, tier):
    raise NotImplementedError
