"""Engine K: Kani/CBMC contract harnesses on the real crate (unsafe code included).

Harness source lives in /verif/kani/harness_*.rs and is pulled into the crate by the guarded
`#[path]` modules (cargo feature verif-hooks).  One `cargo kani` invocation verifies a batch of
harnesses in parallel; results are cached per harness, keyed by the contents of /repo and /verif/kani.
"""
import json, os, re, sys, time
from common import *
import registry

KANI_DIR = os.path.join(VERIF, 'kani')

SAFETY_C03 = re.compile(r'dereference failure|pointer|deallocat|double free|free argument|free called|memory leak|dynamically allocated memory never freed|'
                        r'misaligned|invalid integer address|dead object|outside object bounds|NULL|uninitialized|may alias|same object', re.I)
SAFETY_C05 = re.compile(r'unwrap\(\)|panicked|attempt to |overflow|index out of bounds|out of range|division by zero|remainder|'
                        r'called `|explicit panic|unreachable|expect|slice index|assertion failed|capacity overflow|shift', re.I)
UNDECIDED_PAT = re.compile(r'unwinding assertion|unsupported|not currently supported|\[vmap\] capacity', re.I)


# ------------------------------------------------------------------ static scan of harness sources
def _mask_strings(s):
    return re.sub(r'"(?:\\.|[^"\\])*"', lambda m: '"' + ' ' * (len(m.group(0)) - 2) + '"', s)


def scan_file(path):
    """returns dict name -> dict(kind='fn'|'macro', proof=bool, attrs=str, msgs=[...], calls=set, covers=[...])"""
    src = open(path).read()
    m = _mask_strings(re.sub(r'//[^\n]*', lambda mm: ' ' * len(mm.group(0)), src))
    items = {}
    for mt in re.finditer(r'(?:\bfn\s+(\w+)|macro_rules!\s*(\w+))', m):
        name = mt.group(1) or mt.group(2)
        ob = m.find('{', mt.end())
        if ob < 0:
            continue
        depth = 0
        cb = ob
        for j in range(ob, len(m)):
            if m[j] == '{': depth += 1
            elif m[j] == '}':
                depth -= 1
                if depth == 0:
                    cb = j; break
        body = src[ob:cb + 1]
        mbody = m[ob:cb + 1]
        # attributes / marker comments directly above
        pre = src[:mt.start()]
        above = []
        for line in reversed(pre.split('\n')[:-1][-12:]):
            t = line.strip()
            if t.startswith('#[') or t.startswith('//'):
                above.append(t)
            elif t == '' and not above:
                continue
            else:
                break
        attrs = '\n'.join(reversed(above))
        msgs = re.findall(r'"(\[[A-Za-z][^"]*)"', body)
        covers = re.findall(r'cover!\s*\([^;]*?"([^"]*)"\s*\)\s*;', body, re.S)
        calls = set(re.findall(r'\b(\w+)\s*!?\s*\(', mbody)) | set(re.findall(r'\b(\w+)::<', mbody))
        items[name] = dict(kind='fn' if mt.group(1) else 'macro', proof='kani::proof' in attrs, attrs=attrs,
                           msgs=[x for x in msgs if not x.startswith('[builder]') and x not in covers],
                           covers=covers, calls=calls, line=src.count('\n', 0, mt.start()) + 1)
    return items


def harness_table(files):
    items = {}
    per_file = {}
    for f in files:
        it = scan_file(os.path.join(KANI_DIR, f))
        per_file[f] = it
        for k, v in it.items():
            items.setdefault(k, v)
    def closure(name, seen):
        if name in seen or name not in items:
            return [], []
        seen.add(name)
        msgs = list(items[name]['msgs']); covers = list(items[name]['covers'])
        for c in items[name]['calls']:
            mm, cc = closure(c, seen)
            msgs += mm; covers += cc
        return msgs, covers
    table = {}
    for f, it in per_file.items():
        for name, v in it.items():
            if v['proof']:
                msgs, covers = closure(name, set())
                table[(f, name)] = dict(msgs=sorted(set(msgs)), covers=covers, attrs=v['attrs'], line=v['line'])
    return table


def tags_of(msg):
    return re.findall(r'\[(C\d\d)\.?([\w-]*)\]', msg)


# ------------------------------------------------------------------ running
def kani_hash():
    return tree_hash([KANI_DIR], exts=('.rs',))


def harness_key(unit, cfgname, full, tier_n):
    return 'kani-%s-%s-%s-N%s-%s-%s' % (unit, cfgname, full.replace('::', '.'), tier_n, repo_hash(), kani_hash())


def parse_output(out):
    """terse, possibly multi-threaded output -> dict harness -> dict(text, failed[list of (desc, loc)], total, nfailed, covers_ok, covers_total, status, time)"""
    res = {}
    cur = {}   # thread -> harness
    chunks = {}
    single = None
    for line in out.split('\n'):
        mt = re.match(r'(?:Thread (\d+): )?Checking harness ([\w:]+)\.\.\.', line)
        if mt:
            th = mt.group(1) or '0'
            cur[th] = mt.group(2)
            chunks.setdefault(mt.group(2), [])
            single = mt.group(2)
            last_th = th
            continue
        mt = re.match(r'Thread (\d+): ?(.*)', line)
        if mt:
            last_th = mt.group(1)
            if last_th in cur:
                chunks[cur[last_th]].append(mt.group(2))
            continue
        if line.startswith('Manual Harness Summary') or line.startswith('Complete - '):
            last_th = None
            continue
        try:
            if last_th is not None and last_th in cur:
                chunks[cur[last_th]].append(line)
        except NameError:
            pass
    for h, lines in chunks.items():
        text = '\n'.join(lines)
        r = dict(text=text[-6000:], failed=[], total=None, nfailed=None, covers_ok=None, covers_total=None, status='unknown', time=None)
        mt = re.search(r'\*\* (\d+) of (\d+) failed', text)
        if mt:
            r['nfailed'], r['total'] = int(mt.group(1)), int(mt.group(2))
        mt = re.search(r'\*\* (\d+) of (\d+) cover properties satisfied', text)
        if mt:
            r['covers_ok'], r['covers_total'] = int(mt.group(1)), int(mt.group(2))
        mt = re.search(r'Verification Time: ([\d.]+)s', text)
        if mt:
            r['time'] = float(mt.group(1))
        for fm in re.finditer(r'Failed Checks: (.*?)\n\s*File: "([^"]*)", line (\d+), in ([^\n]*)', text):
            r['failed'].append(dict(desc=fm.group(1).strip(), file=fm.group(2), line=int(fm.group(3)), func=fm.group(4).strip()))
        for fm in re.finditer(r'Failed Checks: ([^\n]*)\n(?!\s*File:)', text):
            r['failed'].append(dict(desc=fm.group(1).strip(), file='', line=0, func=''))
        if 'VERIFICATION:- SUCCESSFUL' in text:
            r['status'] = 'success'
        elif 'VERIFICATION:- FAILED' in text:
            r['status'] = 'failed'
        elif 'CBMC timed out' in text or 'timed out' in text.lower():
            r['status'] = 'timeout'
        unsat_covers = re.findall(r'Unsatisfied cover[^\n]*|UNSATISFIABLE[^\n]*', text)
        r['cover_notes'] = unsat_covers
        res[h] = r
    return res


def run_batch(cfg, tier_n, fulls, jobs, timeout_s):
    """one cargo kani invocation; returns (parsed dict, raw output, wall)"""
    tdir = os.path.join(BUILD, 'kani', '%s-N%s' % (cfg['name'], tier_n))
    os.makedirs(tdir, exist_ok=True)
    cmd = ['cargo', 'kani', '--manifest-path', os.path.join(REPO, 'Cargo.toml'), '--target-dir', tdir]
    cmd += cfg['cargo_flags']
    cmd += ['--solver', cfg.get('solver', 'minisat'), '--output-format', 'terse', '-j', str(jobs),
            '-Z', 'unstable-options', '--harness-timeout', '%ds' % timeout_s, '--exact']
    cmd += cfg.get('kani_flags', [])
    for h in fulls:
        cmd += ['--harness', h]
    env = {'VERIF_N': str(tier_n), 'CARGO_NET_OFFLINE': 'true'}
    rc, out, err, wall = sh(cmd, cwd=REPO, env=env, timeout=timeout_s * (2 + len(fulls) // max(1, jobs)) + 600)
    return parse_output(out + '\n' + err), out + '\n' + err, wall, ' '.join(cmd)


def classify_failed(desc):
    tg = tags_of(desc)
    if tg:
        return sorted(set(t[0] for t in tg)), 'tagged'
    if desc.startswith('[builder]') or UNDECIDED_PAT.search(desc):
        return [], 'undecided'
    props = []
    if SAFETY_C03.search(desc):
        props.append('C03')
    if SAFETY_C05.search(desc) or not props:
        props.append('C05')
    return props, 'safety'


def slug(s):
    return re.sub(r'[^A-Za-z0-9.]+', '-', s).strip('-')[:70]


def run_units(unit_names, tier):
    """Run (or fetch from cache) all harnesses of the given Kani units; returns dict unit -> result."""
    t0 = time.time()
    wanted = []   # (unit, cfgname, file, name, full, info)
    tables = {}
    results = {}
    for un in unit_names:
        u = registry.UNITS[un]
        tab = harness_table(u['files'] + u.get('support_files', []))
        results[un] = dict(unit=un, engine='kani', tier=tier, obligations=[], functions=u.get('functions', []), assumptions=list(u.get('assumptions', [])),
                           negative_controls=[], status='ok', notes=[], checker_cmd='', wall_s=0.0, covers=dict(satisfied=0, total=0),
                           harnesses=[])
        for cfgname in u.get('configs', ['std']):
            cfg = registry.KANI_CONFIGS[cfgname]
            if tier == 'quick' and cfg.get('thorough_only'):
                continue
            for (f, name), info in sorted(tab.items()):
                if f not in u['files']:
                    continue
                if tier == 'quick' and 'tier: thorough' in info['attrs']:
                    continue
                if cfgname != 'std' and 'configs: all' not in info['attrs'] and not u.get('all_configs'):
                    continue
                full = u['module'][f] + '::' + name
                wanted.append((un, cfgname, f, name, full, info))
    n_of = lambda un: registry.UNITS[un]['n'][tier]
    # cache lookup
    todo = {}
    got = {}
    for (un, cfgname, f, name, full, info) in wanted:
        key = harness_key(un, cfgname, full, n_of(un))
        c = cache_get(key)
        if c is not None:
            c['cache_hit'] = True
            got[(un, cfgname, full)] = c
        else:
            todo.setdefault((cfgname, n_of(un)), []).append((un, f, name, full, info, key))
    for (cfgname, n), lst in todo.items():
        cfg = registry.KANI_CONFIGS[cfgname]
        fulls = [x[3] for x in lst]
        jobs = min(int(os.environ.get('VERIF_JOBS', '14')), max(1, len(fulls)))
        tmo = max(registry.UNITS[x[0]].get('timeout', {}).get(tier, 900) for x in lst)
        log('[kani] %s N=%s: %d harnesses, -j %d ...' % (cfgname, n, len(fulls), jobs))
        parsed, raw, wall, cmdline = run_batch(cfg, n, fulls, jobs, tmo)
        os.makedirs(os.path.join(BUILD, 'logs'), exist_ok=True)
        with open(os.path.join(BUILD, 'logs', 'kani-%s-N%s-%d.log' % (cfgname, n, int(time.time()))), 'w') as fh:
            fh.write(cmdline + '\n' + raw)
        for (un, f, name, full, info, key) in lst:
            r = parsed.get(full)
            if r is None:
                r = dict(text=raw[-3000:], failed=[], total=None, nfailed=None, covers_ok=None, covers_total=None, status='missing', time=None)
            r['cmd'] = cmdline
            r['cache_hit'] = False
            r['batch_wall'] = wall
            if r['status'] in ('success', 'failed'):
                cache_put(key, r)
            got[(un, cfgname, full)] = r
    # assemble per unit
    for (un, cfgname, f, name, full, info) in wanted:
        u = registry.UNITS[un]
        res = results[un]
        r = got[(un, cfgname, full)]
        res['checker_cmd'] = re.sub(r'( --harness \S+)+', ' --harness <each harness of the unit>', r.get('cmd', ''))
        n = n_of(un)
        proved = 'kind: proved' in info['attrs']
        kind = 'proved' if proved else 'bounded'
        bm = re.search(r'bound: ([^\n]*)', info['attrs'])
        bound = None if proved else (bm.group(1).strip() if bm else u['bound'].replace('{N}', str(n)))
        hid = '%s/%s%s' % (un, name, '' if cfgname == 'std' else '@' + cfgname)
        res['harnesses'].append(dict(harness=full, config=cfgname, status=r['status'], time_s=r.get('time'), checks=r.get('total'),
                                     cache_hit=r.get('cache_hit', False)))
        negctl = 'negative control' in info['attrs']
        if negctl:
            res['negative_controls'].append(dict(name=hid, expected='fail', observed='fail' if r['status'] == 'failed' else r['status'].upper()))
            if r['status'] == 'success':
                res['status'] = 'undecided'
                res['notes'].append('negative control %s verified although it must fail' % hid)
            elif r['status'] != 'failed':
                res['status'] = 'undecided'
                res['notes'].append('negative control %s: %s' % (hid, r['status']))
            continue
        if r['status'] not in ('success', 'failed'):
            res['status'] = 'undecided'
            res['notes'].append('%s: %s' % (hid, r['status']))
            for msg in info['msgs']:
                res['obligations'].append(dict(id='%s/%s' % (hid, slug(msg)), props=sorted(set(t[0] for t in tags_of(msg))), status='undecided',
                                               kind=kind, bound=bound, backend='kani/cbmc', time_s=0, description=msg))
            continue
        failed_descs = [fc['desc'] for fc in r['failed']]
        und = [d for d in failed_descs if classify_failed(d)[1] == 'undecided']
        if und:
            res['status'] = 'undecided'
            res['notes'].append('%s: %s' % (hid, '; '.join(und)[:300]))
        if r.get('covers_total') is not None:
            res['covers']['satisfied'] += r['covers_ok']
            res['covers']['total'] += r['covers_total']
            if r['covers_ok'] != r['covers_total'] and r['status'] == 'success':
                res['status'] = 'undecided'
                res['notes'].append('%s: only %d of %d cover properties satisfied (a contract case is unreachable: vacuity guard)' % (hid, r['covers_ok'], r['covers_total']))
        share = (r.get('time') or 0) / max(1, len(info['msgs']) + 2)
        # tagged contract conjuncts
        for msg in info['msgs']:
            tg = sorted(set(t[0] for t in tags_of(msg)))
            if not tg:
                continue
            st = 'failed' if msg in failed_descs else ('undecided' if und else 'discharged')
            res['obligations'].append(dict(id='%s/%s' % (hid, slug(msg)), props=tg, status=st, kind=kind, bound=bound, backend='kani/cbmc',
                                           time_s=round(share, 3), description=msg, detail=[msg] if st == 'failed' else [],
                                           text=[r['text'][-2500:]] if st == 'failed' else [], harness=full, config=cfgname))
        # untagged safety classes owned by C03 / C05
        safety_failed = {'C03': [], 'C05': []}
        for fc in r['failed']:
            props, how = classify_failed(fc['desc'])
            if how == 'safety':
                for p in props:
                    safety_failed[p].append(fc)
        for p, label in (('C03', 'memory-safety checks (pointer validity, bounds, double free, dealloc) on every path'),
                         ('C05', 'panic-freedom checks (unwrap/expect, overflow, index, division, unreachable) on every path')):
            if safety_failed[p]:
                for fc in safety_failed[p]:
                    res['obligations'].append(dict(id='%s/safety-%s-%s' % (hid, p, slug(fc['desc'])), props=[p], status='failed', kind=kind, bound=bound,
                                                   backend='kani/cbmc', time_s=round(share, 3), description='%s: %s (%s:%s %s)' % (label, fc['desc'], fc['file'], fc['line'], fc['func']),
                                                   detail=[fc['desc']], text=[r['text'][-2500:]], harness=full, config=cfgname))
            else:
                res['obligations'].append(dict(id='%s/safety-%s' % (hid, p), props=[p], status='undecided' if und else 'discharged', kind=kind, bound=bound,
                                               backend='kani/cbmc', time_s=round(share, 3),
                                               description='%s; %s CBMC checks in this harness' % (label, r.get('total')), harness=full, config=cfgname))
    for un, res in results.items():
        if not res['obligations'] and res['status'] == 'ok':
            res['status'] = 'undecided'
            res['notes'].append('zero obligations generated')
        res['wall_s'] = round(time.time() - t0, 2)
        res['solver_wall_s'] = round(sum((h.get('time_s') or 0) for h in res['harnesses']), 2)
    return results


def run_unit(name, unit, tier):
    return run_units([name], tier)[name]
