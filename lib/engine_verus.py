"""Engine V: Verus on functions extracted mechanically from /repo on every run."""
import importlib.util, json, os, re, sys, time
from common import *

sys.path.insert(0, os.path.join(VERIF, 'verus'))
import extract

ASSUME_PAT = re.compile(r'\b(assume\s*\(|admit\s*\(|assume_specification|external_body|external_trait_specification|'
                        r'external_type_specification|verifier::external\b|verifier::truncate|#\[verifier::axiom|accept_rec)')


def load_overlay(fname):
    path = os.path.join(VERIF, 'verus', 'overlay', fname)
    spec = importlib.util.spec_from_file_location('ov_' + fname.replace('.', '_'), path)
    mod = importlib.util.module_from_spec(spec)
    spec.loader.exec_module(mod)
    return mod.UNIT


def scan_assumptions(text):
    out = []
    for ln, line in enumerate(text.split('\n'), 1):
        s = line.strip()
        if s.startswith('//'):
            continue
        if ASSUME_PAT.search(line):
            out.append('%d: %s' % (ln, s[:160]))
    return out


def fn_ranges(text):
    """map line -> function name, using the markers the extractor leaves and `fn name` headers."""
    ranges = []
    cur = None
    lines = text.split('\n')
    for ln, line in enumerate(lines, 1):
        m = re.match(r'\s*(?:pub\s+)?(?:open\s+|closed\s+)?(?:proof|spec|exec)?\s*fn\s+(\w+)', line)
        if m and not line.strip().startswith('//'):
            cur = m.group(1)
        ranges.append(cur)
    return ranges


def parse_errors(stderr, unit_file):
    """split rustc-style diagnostics into (kind, message, primary_line, all_lines, text)"""
    blocks = re.split(r'\n(?=(?:error|warning|note)(?:\[[A-Z0-9]+\])?:)', '\n' + stderr)
    res = []
    for b in blocks:
        b = b.strip('\n')
        m = re.match(r'(error|warning|note)(\[[A-Z0-9]+\])?: (.*)', b)
        if not m:
            continue
        lines = [int(x) for x in re.findall(r'^\s*(\d+) \|', b, re.M)]
        pm = re.search(r'--> [^:\n]+:(\d+):\d+', b)
        res.append(dict(kind=m.group(1), code=m.group(2), msg=m.group(3).strip(),
                        line=int(pm.group(1)) if pm else None, lines=lines, text=b))
    return res


def run_unit(unit, tier):
    t0 = time.time()
    ov = load_overlay(unit['overlay'])
    name = ov['name']
    res = dict(unit=name, engine='verus', tier=tier, obligations=[], functions=[], assumptions=[],
               negative_controls=[], status='ok', notes=[], checker_cmd='', wall_s=0.0)
    try:
        text, meta = extract.build_unit(REPO, ov)
    except extract.LostAnchor as e:
        res.update(status='undecided', notes=['lost anchor: %s' % e])
        res['wall_s'] = time.time() - t0
        return res
    os.makedirs(os.path.join(BUILD, 'verus'), exist_ok=True)
    stem = name.lower().replace('-', '_')
    path = os.path.join(BUILD, 'verus', stem + '.rs')
    with open(path, 'w') as fh:
        fh.write(text)
    res['functions'] = meta
    res['generated_file'] = path
    assumptions = scan_assumptions(text)
    res['assumptions'] = ['%s: %s' % (name, a) for a in assumptions]
    lockp = os.path.join(VERIF, 'assumptions.lock')
    lock = json.load(open(lockp)) if os.path.exists(lockp) else {}
    if name in lock and lock[name] != len(assumptions) and not os.environ.get('VERIF_UPDATE_LOCK'):
        res['status'] = 'undecided'
        res['notes'].append('assumption scan: %d trusted items found, lock says %d' % (len(assumptions), lock[name]))
    res['assumption_count'] = len(assumptions)
    rlimit = str(unit.get('rlimit', 30))
    cmd = ['verus', path, '--output-json', '--time', '--multiple-errors', '4', '--rlimit', rlimit,
           '--triggers-mode', 'silent', '--num-threads', '8']
    res['checker_cmd'] = ' '.join(cmd)
    rc, out, err, wall = sh(cmd, cwd=os.path.join(BUILD, 'verus'), timeout=unit.get('timeout', 900))
    res['solver_wall_s'] = round(wall, 2)
    try:
        js = json.loads(out)
    except Exception:
        res.update(status='undecided', notes=res['notes'] + ['verus produced no JSON (rc=%s): %s' % (rc, err[-1500:])])
        res['wall_s'] = time.time() - t0
        return res
    vr = js.get('verification-results', {})
    diags = parse_errors(err, path)
    errors = [d for d in diags if d['kind'] == 'error' and not d['msg'].startswith('aborting due to')]
    hard = [d for d in errors if d['code']]  # rustc errors like E0308: tool/compile problem
    ranges = fn_ranges(text)
    tlines = text.split('\n')
    by_fn = {}
    for d in errors:
        if d['code']:
            continue
        # attribute to the function that contains the *last* mentioned line of the unit file
        cand = [l for l in ([d['line']] if d['line'] else []) + d['lines'] if l and l <= len(ranges)]
        fn = None
        # prefer the line carrying the "at the end of the function body"/call site: use max line
        if cand:
            fn = ranges[max(cand) - 1]
        tags = set()
        for l in cand:
            tags.update(re.findall(r'\[(C\d\d)', tlines[l - 1]))
        by_fn.setdefault(fn, []).append(dict(msg=d['msg'], tags=sorted(tags), text=d['text'][:1500]))
    breakdown = []
    for mt in js.get('times-ms', {}).get('smt', {}).get('smt-run-module-times', []):
        breakdown += mt.get('function-breakdown', [])
    if not breakdown and (hard or not vr):
        res.update(status='undecided', notes=res['notes'] + ['verus front-end error: ' + '; '.join(d['msg'] for d in hard)[:1500]])
        res['wall_s'] = time.time() - t0
        return res
    fprops = {}
    for f in meta:
        fprops[f['function'].split('::')[-1]] = f['props']
    default_props = ov.get('props', [])
    neg_expected = set(ov.get('negative_controls', []))
    seen = {}
    for fb in breakdown:
        full = fb['function']
        short = full.split('::')[-1]
        ok = fb.get('success', False)
        props = fprops.get(short, default_props)
        msgs = by_fn.get(short, [])
        rl = any('rlimit' in m['msg'].lower() or 'resource limit' in m['msg'].lower() for m in msgs)
        status = 'discharged' if ok else ('undecided' if rl else 'failed')
        if short in neg_expected:
            res['negative_controls'].append(dict(name='%s/%s' % (name, short), expected='fail',
                                                 observed='fail' if not ok else 'PASS'))
            continue
        ob = dict(id='%s/%s' % (name, '::'.join(full.split('::')[1:])), props=props, status=status, kind='proved',
                  backend='verus/z3', mode=fb.get('mode:', ''), time_s=round(fb.get('time-micros', 0) / 1e6, 4),
                  rlimit=fb.get('rlimit'), detail=[m['msg'] for m in msgs], text=[m['text'] for m in msgs][:3],
                  tags=sorted(set(t for m in msgs for t in m['tags'])))
        if short in seen:
            # several queries for one function (spinoff): merge
            o = seen[short]
            o['time_s'] = round(o['time_s'] + ob['time_s'], 4)
            if ob['status'] != 'discharged':
                o['status'] = ob['status']
            continue
        seen[short] = ob
        res['obligations'].append(ob)
    # functions with errors that are not in the breakdown (e.g. failed before SMT)
    for fn, msgs in by_fn.items():
        if fn and fn not in seen and fn not in neg_expected:
            res['obligations'].append(dict(id='%s/%s' % (name, fn), props=fprops.get(fn, default_props), status='failed',
                                           kind='proved', backend='verus/z3', time_s=0, detail=[m['msg'] for m in msgs],
                                           text=[m['text'] for m in msgs][:3],
                                           tags=sorted(set(t for m in msgs for t in m['tags']))))
    if hard:
        res['status'] = 'undecided'
        res['notes'].append('rustc errors: ' + '; '.join(d['msg'] for d in hard)[:800])
    for nc in neg_expected:
        if not any(n['name'].endswith('/' + nc) for n in res['negative_controls']):
            res['status'] = 'undecided'
            res['notes'].append('negative control %s missing from verifier output' % nc)
    if any(n['observed'] != 'fail' for n in res['negative_controls']):
        res['status'] = 'undecided'
        res['notes'].append('negative control verified although it must fail: unit is vacuous')
    n_exec = sum(1 for o in res['obligations'] if o.get('mode') == 'exec' and o['status'] == 'discharged')
    if not res['obligations']:
        res['status'] = 'undecided'
        res['notes'].append('zero obligations generated')
    res['exec_functions_verified'] = n_exec
    res['wall_s'] = round(time.time() - t0, 2)
    return res
