"""Units (groups of obligations run by one verifier invocation) and the property -> units map."""

COMMON_ASSUMPTIONS = [
    'rustc, Verus 0.2026.09.13 + Z3, Kani 0.68 + CBMC 6.11 + SAT back end are sound',
    'core/alloc/std behave as specified by vstd (Verus) or as compiled by Kani; allocation never fails',
    'usize is 64 bit',
]

KANI_CONFIGS = {
    # std build of the crate (default features) with hooks
    'std': dict(name='std', cargo_flags=['--features', 'verif-hooks'], solver='minisat', kani_flags=['-Z', 'stubbing']),
    # std build with CBMC's memory-leak check: only for harnesses that drop everything they built (unit K-LEAK)
    'stdleak': dict(name='stdleak', cargo_flags=['--features', 'verif-hooks'], solver='minisat',
                    kani_flags=['-Z', 'stubbing', '--cbmc-args', '--memory-leak-check']),
    # no_std build: hashbrown + libm
    'nostd': dict(name='nostd', cargo_flags=['--no-default-features', '--features', 'hashbrown,libm,verif-hooks'], solver='minisat',
                  thorough_only=False, kani_flags=['-Z', 'stubbing']),
}

SHIM_ASSUMPTIONS = [
    'HashMap is replaced under cfg(all(kani, feature="verif-hooks")) by /verif/kani/vmap.rs, an executable rendering of its assumed contract '
    '(association list, lookups compare every stored key, nondeterministic iteration order, hasher never consulted); '
    'the quantifier over BuildHashers/collisions is therefore discharged by assumption on std/hashbrown, not verified',
    'state builders (verif_from_parts), abstract views (verif_abs), audits (verif_wf) and spec functions in /verif/kani are trusted; '
    'builder output is asserted well-formed and equal to the intended view in every harness',
    'keys and values instantiated as u8 (plus drop-tracked ids and Box<u8>/[u8;2] keys where stated); String keys are not instantiated',
    'CBMC has no aliasing (Stacked/Tree Borrows) model and treats reads of uninitialised memory as nondeterministic values',
]

# source files of /repo a unit's verdict depends on (Rust module dependencies: raw.rs <- segmented/two_queue/adaptive
# <- wtinylfu; the LFU estimator and the cost tracker are independent of the lists)
SRC_COMMON = ['Cargo.toml', 'Cargo.lock', 'src/lib.rs', 'src/lru.rs', 'src/cache_api.rs', 'src/macros.rs', 'src/polyfill.rs', 'src/lru/error.rs', 'src/lfu.rs']
SRC_RAW = ['src/lru/raw.rs']
SRC_TLFU = ['src/lfu/tinylfu.rs', 'src/lfu/tinylfu']
SRC_DEPS = {
    'K-PR': [], 'K-RAW': SRC_RAW, 'K-ITER': SRC_RAW, 'K-CB': SRC_RAW, 'K-LIFE': SRC_RAW,
    'K-SEG': SRC_RAW + ['src/lru/segmented.rs'], 'K-2Q': SRC_RAW + ['src/lru/two_queue.rs'], 'K-ARC': SRC_RAW + ['src/lru/adaptive.rs'],
    'K-WTLFU': SRC_RAW + ['src/lru/segmented.rs', 'src/lfu/wtinylfu.rs', 'src/lfu/wtinylfu'] + SRC_TLFU,
    'K-SKETCH': SRC_TLFU, 'K-TLFU-CTOR': SRC_TLFU, 'K-SLFU': ['src/lfu/sampled.rs'],
    'K-LEAK': SRC_RAW + ['src/lru/segmented.rs', 'src/lru/two_queue.rs'],
    'K-LEAK-ARC': SRC_RAW + ['src/lru/adaptive.rs'],
}

UNITS = {
    'V-ROW': dict(engine='verus', overlay='v_row.py'),
    'V-BLOOM': dict(engine='verus', overlay='v_bloom.py'),
    'V-TLFU': dict(engine='verus', overlay='v_tlfu.py', rlimit=60),
    'V-POW': dict(engine='verus', overlay='v_pow.py'),
    'V-SLFU': dict(engine='verus', overlay='v_slfu.py'),
    'V-PR': dict(engine='verus', overlay='v_pr.py'),
    'K-PR': dict(engine='kani', files=['harness_lib.rs'], module={'harness_lib.rs': 'verif_hooks::harness'},
                 n=dict(quick=2, thorough=2), bound='none (loop-free, payloads K=u8, V=u16 fully symbolic)',
                 functions=[dict(function='PutResult::{eq, clone, Copy}', file='src/lib.rs', line=0, props=['C12'])],
                 assumptions=['PutResult impls are parametric in K, V (they only call ==/clone on payloads): checked for K=u8, V=u16']),
    'K-RAW': dict(engine='kani', files=['harness_raw.rs'], support_files=['gen.rs'], module={'harness_raw.rs': 'lru::raw::verif_hooks::harness'},
                  n=dict(quick=2, thorough=3), bound='list length <= {N}, capacity <= {N} (history length unbounded: arbitrary well-formed pre-state)',
                  timeout=dict(quick=900, thorough=3600),
                  functions=[dict(function='RawLRU::' + f, file='src/lru/raw.rs', line=0, props=['C01', 'C02', 'C03', 'C05', 'C06', 'C12', 'C13'])
                             for f in ['put', 'capturing_put', 'replace_or_create_node', 'get', 'get_', 'get_mut', 'get_mut_', 'peek', 'peek_', 'peek_mut', 'peek_mut_',
                                       'contains', 'remove', 'attach', 'detach', 'len', 'cap', 'is_empty']],
                  assumptions=SHIM_ASSUMPTIONS),
    'K-CB': dict(engine='kani', files=['harness_raw_cb.rs'], support_files=['harness_raw.rs', 'gen.rs'],
                 module={'harness_raw_cb.rs': 'lru::raw::verif_hooks::harness_cb'},
                 n=dict(quick=2, thorough=3), bound='list length <= {N}, capacity <= {N}',
                 timeout=dict(quick=900, thorough=3600),
                 functions=[dict(function='RawLRU::' + f, file='src/lru/raw.rs', line=0, props=['C15'])
                            for f in ['cb', 'capturing_put', 'remove', 'remove_lru', 'purge', 'resize', 'with_on_evict_cb_and_hasher']],
                 assumptions=SHIM_ASSUMPTIONS + ['with_on_evict_cb (RandomState hasher) differs from with_on_evict_cb_and_hasher only in the hasher argument; only the latter is executed under Kani']),
    'K-LIFE': dict(engine='kani', jobs=10, files=['harness_raw_life.rs'], support_files=['harness_raw.rs', 'gen.rs'],
                   module={'harness_raw_life.rs': 'lru::raw::verif_hooks::harness_life'},
                   n=dict(quick=2, thorough=3), bound='list length <= {N}, capacity <= {N}; 16 tracked object ids',
                   timeout=dict(quick=900, thorough=3600),
                   functions=[dict(function='RawLRU::' + f, file='src/lru/raw.rs', line=0, props=['C04', 'C16', 'C17', 'C02', 'C03'])
                              for f in ['clone', 'drop', 'capturing_put', 'replace_or_create_node', 'remove', 'remove_lru', 'remove_lru_in', 'purge', 'resize',
                                        'get', 'peek', 'peek_mut', 'contains (borrowed Q)', 'KeyWrapper::from_ref', 'KeyRef::borrow']],
                   assumptions=SHIM_ASSUMPTIONS),
    'K-SEG': dict(engine='kani', jobs=10, files=['harness_segmented.rs'], support_files=['harness_raw.rs', 'gen.rs'],
                  module={'harness_segmented.rs': 'lru::segmented::verif_hooks::harness'},
                  n=dict(quick=2, thorough=2), bound='each segment: length <= {N}, capacity in 1..={N}',
                  timeout=dict(quick=3600, thorough=5400),
                  functions=[dict(function='SegmentedCache::' + f, file='src/lru/segmented.rs', line=0, props=['C01', 'C02', 'C03', 'C05', 'C07', 'C12', 'C13', 'C16', 'C17'])
                             for f in ['put', 'get', 'get_mut', 'peek', 'peek_mut', 'contains', 'remove', 'purge', 'len', 'cap', 'is_empty', 'move_to_protected',
                                       'put_protected', 'peek_{lru,mru}(_mut)_from_{probationary,protected}', 'remove_lru_from_{probationary,protected}',
                                       '{protected,probationary}_{len,cap}', 'clone', 'drop']],
                  assumptions=SHIM_ASSUMPTIONS),
    'K-2Q': dict(engine='kani', jobs=6, files=['harness_two_queue.rs'], support_files=['gen.rs'],
                 module={'harness_two_queue.rs': 'lru::two_queue::verif_hooks::harness'},
                 n=dict(quick=1, thorough=2), bound='size in 1..={N}, quota in 0..=size, ghost bound in 1..=size, each queue <= {N} entries',
                 timeout=dict(quick=3600, thorough=7200),
                 functions=[dict(function='TwoQueueCache::' + f, file='src/lru/two_queue.rs', line=0, props=['C01', 'C02', 'C03', 'C05', 'C08', 'C12', 'C13', 'C14'])
                            for f in ['put', 'get', 'get_mut', 'peek', 'peek_mut', 'contains', 'remove', 'purge', 'len', 'cap', 'is_empty', 'move_to_frequent',
                                      '{recent,frequent,ghost}_len', '{recent,frequent,ghost}_{iter,iter_lru,iter_mut,iter_lru_mut,keys,keys_lru,values,values_lru,values_mut,values_lru_mut}', 'drop']],
                 assumptions=SHIM_ASSUMPTIONS),
    'K-ARC': dict(engine='kani', jobs=6, files=['harness_adaptive.rs'], support_files=['gen.rs'],
                  module={'harness_adaptive.rs': 'lru::adaptive::verif_hooks::harness'},
                  n=dict(quick=1, thorough=2), bound='size in 1..={N}, p in 0..=size, each of the four lists <= {N} entries',
                  timeout=dict(quick=3600, thorough=7200),
                  functions=[dict(function='AdaptiveCache::' + f, file='src/lru/adaptive.rs', line=0, props=['C01', 'C02', 'C03', 'C05', 'C09', 'C12', 'C13', 'C14'])
                             for f in ['put', 'replace', 'get', 'get_mut', 'peek', 'peek_mut', 'contains', 'remove', 'purge', 'len', 'cap', 'is_empty', 'move_to_frequent', 'partition',
                                       '{recent,frequent,recent_evict,frequent_evict}_len', '{recent,frequent,recent_evict,frequent_evict}_{iter,iter_lru,iter_mut,iter_lru_mut,keys,keys_lru,values,values_lru,values_mut,values_lru_mut}', 'drop']],
                  assumptions=SHIM_ASSUMPTIONS),
    'K-SKETCH': dict(engine='kani', files=['harness_sketch.rs'],
                     module={'harness_sketch.rs': 'lfu::tinylfu::sketch::{SKMOD}::verif_hooks::harness'},
                     configs=['std', 'nostd'], all_configs=True,
                     n=dict(quick=2, thorough=2), bound='row width 2, 4 or 8 counters (hash, seeds and counter contents unconstrained; depth 4 is a constant)',
                     timeout=dict(quick=900, thorough=1800),
                     functions=[dict(function=f, file='src/lfu/tinylfu/sketch/count_min_sketch_{std,core}.rs', line=0, props=['C11', 'C05'])
                                for f in ['CountMinSketch::increment', 'CountMinSketch::estimate', 'CountMinSketch::reset', 'CountMinSketch::clear', 'CountMinRow::reset', 'CountMinRow::clear']],
                     assumptions=['sketch row width bounded by 8 counters in the Kani leaf harnesses (the Verus layer above is unbounded in width)']),
    'K-SLFU': dict(engine='kani', files=['harness_sampled.rs'], support_files=['gen.rs'],
                   module={'harness_sampled.rs': 'lfu::sampled::verif_hooks::harness'},
                   n=dict(quick=2, thorough=3), bound='table of <= {N} tracked keys; costs and max_cost in (-2^40, 2^40) so that no i64 sum overflows; fill_sample input <= 2 pairs',
                   timeout=dict(quick=900, thorough=1800),
                   functions=[dict(function='SampledLFU::' + f, file='src/lfu/sampled.rs', line=0, props=['C20', 'C05'])
                              for f in ['increment', 'increment_hashed_key', 'update', 'update_hashed_key', 'remove', 'remove_hashed_key', 'clear',
                                        'update_max_cost', 'get_max_cost', 'room_left', 'fill_sample', 'hash_key']],
                   assumptions=SHIM_ASSUMPTIONS[:1] + ['costs and max_cost bounded by 2^40 in magnitude (i64 overflow of the running sum is excluded by precondition, not verified)']),
    'K-WTLFU': dict(engine='kani', jobs=6, files=['harness_wtinylfu.rs'], support_files=['gen.rs'],
                    module={'harness_wtinylfu.rs': 'lfu::wtinylfu::verif_hooks::harness'},
                    configs=['std', 'nostd'],
                    n=dict(quick=1, thorough=2), bound='window, probationary, protected: length <= {N}, capacity in 1..={N}; sketch rows of 2, 4 or 8 counters, one-word doorkeeper with 1..2 probes, sample size <= 4',
                    timeout=dict(quick=3600, thorough=7200),
                    functions=[dict(function='WTinyLFUCache::' + f, file='src/lfu/wtinylfu.rs', line=0, props=['C01', 'C02', 'C03', 'C05', 'C10', 'C12', 'C13', 'C16', 'C17'])
                               for f in ['put', 'get', 'get_mut', 'peek', 'peek_mut', 'contains', 'remove', 'purge', 'len', 'cap', 'is_empty',
                                         'window_cache_len', 'window_cache_cap', 'main_cache_len', 'main_cache_cap', 'clone', 'drop', 'WTinyLFUCacheBuilder::finalize']],
                    assumptions=SHIM_ASSUMPTIONS + ['the estimator is instantiated small (see bound); its own contracts are unit V-TLFU (unbounded)']),
    'K-TLFU-CTOR': dict(engine='kani', files=['harness_tinylfu.rs'],
                        module={'harness_tinylfu.rs': 'lfu::tinylfu::verif_hooks::harness'},
                        configs=['std', 'nostd'],
                        n=dict(quick=2, thorough=2), bound='sketch sizes 1..=8 in the constructor harness; batches of <= 3 accesses over sample sizes <= 3 in the batch-fold harnesses; Bloom::new for entries <= 2^32 and all ratios in (0,1) is complete',
                        timeout=dict(quick=1800, thorough=3600),
                        functions=[dict(function=f, file='src/lfu/tinylfu.rs', line=0, props=['C05', 'C11'])
                                   for f in ['TinyLFU::increment_keys', 'TinyLFU::increment_hashed_keys', 'TinyLFUBuilder::finalize', 'Bloom::new', 'get_size', 'calc_size_by_wrong_positives', 'CountMinSketch::new (no_std build)', 'next_power_of_2']],
                        assumptions=['contract assumed for the logarithm: ln(x) in [-745, 0) and not NaN for 0 < x < 1; ceil/floor/mul/div/casts are CBMC\'s exact IEEE models',
                                     'std CountMinSketch::new (SystemTime + StdRng seeding) is not executed; only its sizing arithmetic, shared with the no_std constructor, is']),
    'K-LEAK': dict(engine='kani', jobs=6, files=['harness_raw_life.rs', 'harness_segmented.rs', 'harness_two_queue.rs', 'harness_adaptive.rs'],
                   support_files=['gen.rs', 'harness_raw.rs'], match=r'_leakcheck$', exclude=r'^arc_', configs=['stdleak'],
                   module={'harness_raw_life.rs': 'lru::raw::verif_hooks::harness_life', 'harness_segmented.rs': 'lru::segmented::verif_hooks::harness',
                           'harness_two_queue.rs': 'lru::two_queue::verif_hooks::harness', 'harness_adaptive.rs': 'lru::adaptive::verif_hooks::harness'},
                   n=dict(quick=2, thorough=2), bound='each list <= {N} entries; 32 tracked object ids',
                   timeout=dict(quick=3600, thorough=7200),
                   functions=[dict(function=f, file='src/lru/*.rs', line=0, props=['C04', 'C03'])
                              for f in ['RawLRU::{put, remove, remove_lru, purge, resize, drop}', 'SegmentedCache::{put, put_protected, drop}', 'TwoQueueCache::{put, drop}', 'AdaptiveCache::{put, replace, drop}']],
                   assumptions=SHIM_ASSUMPTIONS + ['CBMC --memory-leak-check: every heap object allocated in the harness must be freed by the end (nodes, sentinels, index shim)']),
    # the ARC drop-everything harness needs 2 h 20 min at N = 2 (four lists freed through symbolic pointers): it runs at N = 1
    'K-LEAK-ARC': dict(engine='kani', jobs=6, files=['harness_adaptive.rs'], support_files=['gen.rs'], match=r'^arc_put_leakcheck$', configs=['stdleak'],
                       module={'harness_adaptive.rs': 'lru::adaptive::verif_hooks::harness'},
                       n=dict(quick=1, thorough=1), bound='each of the four lists <= 1 entry; 12 tracked object ids', timeout=dict(quick=3600, thorough=7200),
                       functions=[dict(function='AdaptiveCache::{put, replace, drop}', file='src/lru/adaptive.rs', line=0, props=['C04', 'C03'])],
                       assumptions=SHIM_ASSUMPTIONS + ['CBMC --memory-leak-check: every heap object allocated in the harness must be freed by the end']),
    'K-ITER': dict(engine='kani', files=['harness_raw_iter.rs'], support_files=['harness_raw.rs', 'gen.rs'],
                   module={'harness_raw_iter.rs': 'lru::raw::verif_hooks::harness_iter'},
                   n=dict(quick=2, thorough=3), bound='list length <= {N}+1, schedule of next/next_back of length {N}+3 (= len()+2 at full length)',
                   timeout=dict(quick=900, thorough=3600),
                   functions=[dict(function=f, file='src/lru/raw.rs', line=0, props=['C14', 'C13', 'C02'])
                              for f in ['MRUIter::{next,next_back,size_hint,count,clone}', 'LRUIter::{next,next_back,size_hint,count,clone}',
                                        'MRUIterMut::{next,next_back,size_hint,count}', 'LRUIterMut::{next,next_back,size_hint,count}',
                                        'KeysMRUIter/KeysLRUIter/ValuesMRUIter/ValuesLRUIter/ValuesMRUIterMut/ValuesLRUIterMut::{next,next_back,size_hint,count,clone}',
                                        'RawLRU::{iter,iter_lru,iter_mut,iter_lru_mut,keys,keys_lru,values,values_lru,values_mut,values_lru_mut}',
                                        'IntoIterator for &RawLRU / &mut RawLRU']],
                   assumptions=SHIM_ASSUMPTIONS),
}

def all_units(P):
    u = P['units']
    return sorted(set(u['quick'] + u['thorough'])) if isinstance(u, dict) else u

HOOK_COMMITS = ['28e1c53', '0e1cf41']
HOOKS_ADD_ONLY = False
NOTES = 'See DESIGN.md. Exit 2 from a check means undecided (lost anchor, tool error, timeout, vacuity guard), never an alarm.'

KANI_LEVEL_TEXT = ('bounded contract checking of the real code (Kani/CBMC): every public operation is run from an ARBITRARY state satisfying the '
                   'representation invariant (not from a scripted history), and the invariant plus the operation\'s postcondition are asserted; by induction over the '
                   'history this covers histories of every length, but list lengths/capacities are bounded (see bounds in the evidence), so these obligations '
                   'are labelled bounded and never counted as proved')
KANI_NOTE = ('trusted: rustc, Kani 0.68/CBMC 6.11/minisat; the HashMap contract shim /verif/kani/vmap.rs (hasher never consulted: the quantifier over BuildHashers is '
             'discharged by assumption on std/hashbrown); builders/views/audits/spec functions in /verif/kani (builder soundness is itself an obligation); keys/values u8; '
             'no aliasing model; allocation never fails')
T_KANI = 'contract harnesses (requires = invariant on an arbitrary symbolic state, call, ensures) checked by Kani/CBMC on the real crate'
T_VERUS = 'contracts spliced onto functions extracted byte-for-byte from /repo and discharged by Verus/Z3'

def _P(units, level, text, note, technique, quick=None, thorough_extra=(), **kw):
    d = dict(units=dict(quick=quick or units, thorough=units + list(thorough_extra)), level=level, level_text=text, level_note=note, technique=technique)
    d.update(kw)
    return d

COST_ORDER = ['V-ROW', 'V-BLOOM', 'V-TLFU', 'V-POW', 'V-SLFU', 'V-PR', 'K-PR', 'K-SLFU', 'K-TLFU-CTOR', 'K-SKETCH', 'K-RAW', 'K-ITER', 'K-CB', 'K-LIFE', 'K-SEG', 'K-LEAK', 'K-2Q', 'K-WTLFU', 'K-ARC', 'K-LEAK-ARC']

ALL_CACHES = ['K-RAW', 'K-SEG', 'K-2Q', 'K-ARC', 'K-WTLFU']

PROPERTIES = {
    'C01': _P(ALL_CACHES + ['K-LIFE'], 'model_checking', KANI_LEVEL_TEXT + '. C01 is the conjunct "inv" of every operation contract of all five caches: resident count <= cap(), every partition within its bound, partitions pairwise key-disjoint, len()/is_empty() consistent with the view.', KANI_NOTE, T_KANI),
    'C02': _P(ALL_CACHES + ['K-LIFE', 'K-ITER'], 'model_checking', KANI_LEVEL_TEXT + '. C02: lookups/put/remove postconditions over the whole key->value view, with symbolic values unrelated to keys; borrowed-key lookups with K=Box<u8>,Q=u8 and K=[u8;2],Q=[u8].', KANI_NOTE + '; String/&str keys not instantiated', T_KANI),
    'C03': _P(ALL_CACHES + ['K-LIFE', 'K-ITER', 'K-CB', 'K-LEAK'], 'model_checking', KANI_LEVEL_TEXT + '. C03: CBMC pointer-validity/bounds/double-free/dealloc checks on every path of every harness, plus the well-formedness audit (second sentence of C03, literally) after every operation, incl. clone, purge, resize, drop and node hand-over between lists.', KANI_NOTE + '; Stacked/Tree-Borrows aliasing rules and lifetimes of returned references are out of reach', T_KANI, thorough_extra=['K-LEAK-ARC']),
    'C04': _P(['K-LEAK', 'K-LIFE', 'K-2Q', 'K-ARC', 'K-SEG', 'K-WTLFU'], 'model_checking', KANI_LEVEL_TEXT + '. C04: RawLRU: drop-counting ghost state (every key/value object has an id and a drop counter) in harnesses that end by dropping the cache, run with the CBMC memory-leak check; composite caches: put harnesses with heap-owning values (V = Box<u8>: a value dropped twice, or while still held, is a double free / use after free for CBMC) and node hand-over contracts; thorough tier adds drop-everything harnesses with tracked payloads and the memory-leak check for SegmentedCache, 2Q and ARC.', KANI_NOTE + '; a node that a composite cache forgets to free is only seen by the thorough tier (leak-check harnesses)', T_KANI, thorough_extra=['K-LEAK-ARC']),
    'C05': _P(ALL_CACHES + ['K-LIFE', 'K-SLFU', 'K-SKETCH', 'K-TLFU-CTOR', 'V-ROW', 'V-BLOOM', 'V-TLFU', 'V-POW', 'V-SLFU'], 'model_checking', 'mixed: constructor/builder contracts over the FULL argument domain (all usize sizes, all f64 ratios incl. NaN) are complete Kani proofs; LFU arithmetic (overflow, shifts, indices) is proved unbounded by Verus on the extracted functions; panic-freedom of list operations is ' + KANI_LEVEL_TEXT, KANI_NOTE + '; CBMC float model for floor/mul; ln(x) in [-745,0) for 0<x<1 assumed (stub); fewer than 2^64 doorkeeper insertions; sizes <= 2^32', T_KANI + ' + ' + T_VERUS),
    'C06': _P(['K-RAW', 'K-LIFE'], 'model_checking', KANI_LEVEL_TEXT + '. C06: the view equations of every RawLRU method (exact order of the whole list after each call).', KANI_NOTE, T_KANI),
    'C07': _P(['K-SEG'], 'model_checking', KANI_LEVEL_TEXT + '. C07: SLRU contract of put/get/get_mut/put_protected/remove_lru_from_*/peek_*_from_* by key location.', KANI_NOTE, T_KANI),
    'C08': _P(['K-2Q'], 'model_checking', KANI_LEVEL_TEXT + '. C08: 2Q contract of put (frequent/recent/ghost/new), get, remove; victim rule transcribed from the statement; constructor contract over all sizes and f64 ratios is a complete proof.', KANI_NOTE + '; CBMC float model for floor/mul', T_KANI),
    'C09': _P(['K-ARC'], 'model_checking', KANI_LEVEL_TEXT + '. C09: ARC contract of put (T1/T2/B1/B2/new) with the p update formula and victim rule transcribed from the statement; 0 <= p <= size in the invariant; ghost trimming only constrained relationally.', KANI_NOTE, T_KANI),
    'C10': _P(['K-WTLFU'], 'model_checking', KANI_LEVEL_TEXT + '. C10: W-TinyLFU contract of put/get/get_mut/purge; the admission verdict is read from the real estimator in the pre-state (arbitrary sketch contents, seeds, doorkeeper).', KANI_NOTE + '; estimator instantiated small (rows <= 8 counters, one-word doorkeeper); its own contracts are C11', T_KANI),
    'C11': _P(['V-ROW', 'V-BLOOM', 'V-TLFU', 'V-POW', 'K-SKETCH', 'K-TLFU-CTOR'], 'proof', 'deductive proof (Verus, unbounded in hashes, widths, sample sizes and history length): real TinyLFU/Bloom/CountMinRow bodies against step contracts, then an induction over arbitrary histories against the exact aged-count model (never under-counts, <= 16, exact for a single key, 0 after clear, reset schedule, no false negatives, comparisons). The four closure-using CountMinSketch functions are contracted (external_body) in Verus and discharged on the real bodies by Kani for row widths <= 8 counters: those leaf obligations are bounded.', 'trusted: Verus/Z3; vstd specs of Vec/slice; assume_specification for <[T]>::fill; KeyHasher is a function of its argument; ln(x) in [-745, 0) for 0 < x < 1 (contract of the logarithm, supplied as a stub; the CBMC model of log is nondeterministic); < 2^64 doorkeeper insertions; sketch leaf functions bounded to width <= 8 (Kani); std sketch seeding not executed', T_VERUS + ' (leaf sketch functions: ' + T_KANI + ')'),
    'C12': _P(ALL_CACHES + ['K-PR', 'V-PR'], 'model_checking', KANI_LEVEL_TEXT + '. C12: relational postcondition of every put-like operation (result variant <-> change of the retained set); PutResult Eq/Clone/Copy structural for K=u8,V=u16 (loop-free, complete); PutResult::eq additionally proved by Verus on the extracted body for ALL payload types K, V against vstd\'s PartialEq specification (unit V-PR; assumes V\'s equality symmetric, as PartialEq documents).', KANI_NOTE, T_KANI + ' + (PutResult::eq) ' + T_VERUS),
    'C13': _P(ALL_CACHES + ['K-ITER'], 'model_checking', KANI_LEVEL_TEXT + '. C13: postcondition "view unchanged" (order, values, capacities, p, estimator state) for every read-only operation; equal views give equal futures because every other contract is a function of the view.', KANI_NOTE + '; Debug::fmt not covered', T_KANI),
    'C14': _P(['K-ITER', 'K-2Q', 'K-ARC'], 'model_checking', KANI_LEVEL_TEXT + '. C14: iterator contracts with ghost cursors over the view under an arbitrary next/next_back schedule of len()+2 steps, for all ten iterator types; per-list accessor families of 2Q/ARC hand out the right list.', KANI_NOTE, T_KANI),
    'C15': _P(['K-CB'], 'model_checking', KANI_LEVEL_TEXT + '. C15: ghost log of callback invocations; each operation contract states exactly how the log grows.', KANI_NOTE + '; with_on_evict_cb (RandomState) checked with RandomState::new stubbed', T_KANI),
    'C16': _P(['K-LIFE', 'K-SEG', 'K-WTLFU', 'K-TLFU-CTOR'], 'model_checking', KANI_LEVEL_TEXT + '. C16: clone contract (equal view, disjoint nodes, independence under mutation and drop) for RawLRU, SegmentedCache, WTinyLFUCache, TinyLFU.', KANI_NOTE, T_KANI),
    'C17': _P(['K-LIFE', 'K-CB', 'K-RAW', 'K-SEG', 'K-2Q', 'K-ARC', 'K-WTLFU'], 'model_checking', KANI_LEVEL_TEXT + '. C17: (i) every harness runs with a hasher whose use is a failure (the crate never hashes outside its index) and an index whose iteration order is nondeterministic; (ii) contracts are functions of the abstract view; (iii) two-run relational contract: same view, different addresses and index slot order, same results.', KANI_NOTE + '; independence from the particular BuildHasher inside std/hashbrown HashMap is an assumption on the dependency', T_KANI),
    'C20': _P(['V-SLFU', 'K-SLFU'], 'model_checking', 'mixed, weakest link bounded: (a) deductive proof (Verus/Z3, unbounded in the number of tracked keys and in history length, exact i64 no-overflow preconditions) on the real bodies of increment_hashed_key, update_hashed_key, clear, room_left, fill_sample (loop invariant over the table iterator), increment, remove, update, hash_key against the vstd contract of std HashMap: invariant used == sum of recorded costs, whole-table postconditions, room_left(c) == max_cost - sum - c; (b) remove_hashed_key (Option::inspect with a pattern closure capturing &mut) and get_max_cost/update_max_cost (atomics) are contracted in Verus and discharged on the real bodies by ' + KANI_LEVEL_TEXT + '. C20 in K-SLFU: invariant used == sum of recorded costs over an arbitrary table; contracts of increment*/update*/remove*/clear/update_max_cost/room_left/fill_sample.', 'trusted: Verus/Z3 and the vstd specification of std::collections::HashMap<u64,i64,S> (conditional on builds_valid_hashers::<S>(), which is assumed of the hasher type); assume_specification (dependency contracts written here, vstd has none): HashMap::get_mut, and <&HashMap as IntoIterator>::into_iter with the vstd postcondition of HashMap::iter; KeyHasher is a function of its argument; AtomicI64 value modelled by an uninterpreted atomic_val written only by update_max_cost; Kani leaf: table <= N keys; |cost| < 2^40 (i64 overflow excluded by precondition)', T_VERUS + ' (remove_hashed_key, max-cost accessors: ' + T_KANI + ')'),
}

NOT_APPLICABLE = {
    'C18': 'panic safety quantifies over unwinding out of user code; Kani gives panics abort semantics and Verus has no panics, so no contract either verifier can state speaks about the state after unwinding (DESIGN.md section 8)',
    'C19': 'a property of all safe client programs decided by rustc borrow/auto-trait checking of signatures; both verifiers run after borrow checking and erase lifetimes, pre/postconditions cannot express it (DESIGN.md section 8)',
}
