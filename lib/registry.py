"""Units (groups of obligations run by one verifier invocation) and the property -> units map."""

COMMON_ASSUMPTIONS = [
    'rustc, Verus 0.2026.09.13 + Z3, Kani 0.68 + CBMC 6.11 + SAT back end are sound',
    'core/alloc/std behave as specified by vstd (Verus) or as compiled by Kani; allocation never fails',
    'usize is 64 bit',
]

UNITS = {
    'V-ROW': dict(engine='verus', overlay='v_row.py'),
}

def all_units(P):
    u = P['units']
    return sorted(set(u['quick'] + u['thorough'])) if isinstance(u, dict) else u

HOOK_COMMITS = []
HOOKS_ADD_ONLY = False
NOTES = 'See DESIGN.md. Exit 2 from a check means undecided (lost anchor, tool error, timeout, vacuity guard), never an alarm.'

PROPERTIES = {
    'C05': dict(level='proof', units=['V-ROW'],
                level_text='(under construction) Verus overflow/index/shift obligations on the extracted LFU arithmetic',
                level_note='see evidence trusted_base', technique='contract-based deductive verification (Verus on extracted real functions)'),
    'C11': dict(level='proof', units=['V-ROW'],
                level_text='(under construction) Verus contracts on the extracted sketch row',
                level_note='see evidence trusted_base', technique='contract-based deductive verification (Verus on extracted real functions)'),
}

NOT_APPLICABLE = {
    'C18': 'panic safety quantifies over unwinding out of user code; Kani gives panics abort semantics and Verus has no panics, so no contract either verifier can state speaks about the state after unwinding (DESIGN.md section 8)',
    'C19': 'a property of all safe client programs decided by rustc borrow/auto-trait checking of signatures; both verifiers run after borrow checking and erase lifetimes, pre/postconditions cannot express it (DESIGN.md section 8)',
}
for _p in ['C01','C02','C03','C04','C06','C07','C08','C09','C10','C12','C13','C14','C15','C16','C17','C20']:
    NOT_APPLICABLE.setdefault(_p, 'check not built yet in this revision (planned: DESIGN.md section 5); not claimed until its obligations are discharged')
