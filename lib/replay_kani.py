"""Counterexample extraction (Kani concrete playback) and replay on the real crate.

For a failed harness the engine re-runs it once with `-Z concrete-playback --concrete-playback=print`; Kani then prints,
per failed check, the concrete bytes of every `kani::any()` draw in call order.  For the RawLRU-level operation
harnesses these values are decoded by /verif/replay (a cargo crate built against the repository under test, std
HashMap with two different BuildHashers, public API only), which rebuilds the pre-state, runs the operation and
evaluates the same postcondition.  Exit status of the replay tool: 0 not reproduced, 1 reproduced on the real code,
3 harness not supported / pre-state not reachable through the public API.
"""
import hashlib, os, re, shutil
from common import *

SUPPORTED = {'put', 'get', 'get_mut', 'peek_contains', 'remove', 'remove_lru', 'purge', 'resize'}


def parse_playback(out):
    """returns list of dict(check=desc, values=[ints])"""
    res = []
    for m in re.finditer(r'/// Check for `[^`]*`: "(.*?)"\n.*?let concrete_vals: Vec<Vec<u8>> = vec!\[(.*?)\];\n\s*kani::concrete_playback_run', out, re.S):
        vals = []
        for vm in re.finditer(r'vec!\[([0-9, ]*)\]', m.group(2)):
            bs = [int(x) for x in vm.group(1).split(',') if x.strip()]
            vals.append(sum(b << (8 * i) for i, b in enumerate(bs)))
        res.append(dict(check=m.group(1), values=vals))
    return res


def playback(cmd_prefix, full, env, timeout, tail=()):
    """cmd_prefix: the cargo kani command up to (not including) harness selection"""
    cmd = [x for x in cmd_prefix if x != '--exact'] + ['-Z', 'concrete-playback', '--concrete-playback=print', '--harness', full, '--exact'] + list(tail)
    rc, out, err, wall = sh(cmd, cwd=REPO, env=env, timeout=timeout, mem_gb=float(os.environ.get('VERIF_MEM_GB', '28')))
    return parse_playback(out + '\n' + err), wall


def replay_tool():
    """builds /verif/replay against REPO (in a scratch copy of the crate when REPO is not /repo); returns path of the binary"""
    tag = hashlib.sha256(REPO.encode()).hexdigest()[:8]
    src = os.path.join(VERIF, 'replay')
    if REPO != '/repo':
        scratch = os.path.join(BUILD, 'replay-src-' + tag)
        shutil.rmtree(scratch, ignore_errors=True)
        shutil.copytree(src, scratch, ignore=shutil.ignore_patterns('target'))
        p = os.path.join(scratch, 'Cargo.toml')
        open(p, 'w').write(open(p).read().replace('path = "/repo"', 'path = "%s"' % REPO))
        src = scratch
    tdir = os.path.join(BUILD, 'replay' if REPO == '/repo' else 'replay-' + tag)
    rc, out, err, _ = sh(['cargo', 'build', '--offline', '--quiet'], cwd=src, env={'CARGO_TARGET_DIR': tdir}, timeout=900)
    binp = os.path.join(tdir, 'debug', 'verif-replay')
    return binp if rc == 0 and os.path.exists(binp) else None


def replay(harness_name, nmax, values):
    """returns dict(confirmed=bool|None, output=str)"""
    if harness_name not in SUPPORTED:
        return dict(confirmed=None, output='no replay decoder for harness %s (only the RawLRU-level operation harnesses have one)' % harness_name)
    binp = replay_tool()
    if not binp:
        return dict(confirmed=None, output='replay tool did not build')
    rc, out, err, _ = sh([binp, harness_name, str(nmax)] + [str(v) for v in values], timeout=60)
    return dict(confirmed=True if rc == 1 else (False if rc == 0 else None), output=(out + err)[-3000:],
                command=' '.join([binp, harness_name, str(nmax)] + [str(v) for v in values]))
