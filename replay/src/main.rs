//! usage: verif-replay <harness> <NMAX of the Kani build> <v0> <v1> ...      (the concrete values Kani printed, in draw order, as integers)
//! Rebuilds the harness's pre-state on the real `RawLRU<u8, u8>` through the public API (entries are put from the
//! least to the most recent one, then `resize` to the drawn capacity), runs the operation and evaluates the same
//! postcondition (spec.rs is shared with the Kani harnesses).  Exit 0 = postcondition holds (counterexample NOT
//! reproduced), exit 1 = violated on the real code (prints what differs), exit 3 = harness not supported.
extern crate alloc;
pub use caches::PutResult;
use caches::{Cache, RawLRU, ResizableCache};
use std::hash::{BuildHasherDefault, Hasher};

#[path = "/verif/kani/spec.rs"]
#[allow(dead_code)]
mod spec;
use spec::*;

/// every key collides
#[derive(Default)]
struct ZeroHasher;
impl Hasher for ZeroHasher {
    fn finish(&self) -> u64 { 0 }
    fn write(&mut self, _: &[u8]) {}
}

struct Vals(Vec<u64>, usize);
static mut HARNESS_NMAX: usize = 3;
impl Vals {
    fn next(&mut self) -> u64 { let v = self.0.get(self.1).copied().unwrap_or(0); self.1 += 1; v }
}

fn view<S: std::hash::BuildHasher>(l: &RawLRU<u8, u8, caches::DefaultEvictCallback, S>) -> Abs {
    let mut a = Abs::empty(l.cap());
    for (i, (k, v)) in l.iter().enumerate() {
        if i < NMAX { a.k[i] = *k; a.v[i] = *v; }
        a.n += 1;
    }
    a
}

fn build<S: std::hash::BuildHasher + Default>(a: &Abs) -> RawLRU<u8, u8, caches::DefaultEvictCallback, S> {
    let mut l = RawLRU::with_hasher(a.cap.max(a.n).max(1), S::default()).unwrap();
    for i in (0..a.n).rev() { l.put(a.k[i], a.v[i]); }
    if l.cap() != a.cap { l.resize(a.cap); }
    l
}

/// draw order of gen::any_abs: cap, n, k[NMAX], v[NMAX]
fn any_abs(v: &mut Vals) -> Abs {
    let cap = v.next() as usize;
    let n = v.next() as usize;
    let mut a = Abs::empty(cap);
    a.n = n;
    let hn = unsafe { HARNESS_NMAX };
    for i in 0..hn { let x = v.next() as u8; if i < NMAX { a.k[i] = x; } }
    for i in 0..hn { let x = v.next() as u8; if i < NMAX { a.v[i] = x; } }
    a.canon()
}

fn report(ok: bool, what: &str, detail: String) -> bool {
    if !ok { println!("REPRODUCED on the real code: {}: {}", what, detail); }
    ok
}

fn run<S: std::hash::BuildHasher + Default>(harness: &str, vals: &[u64]) -> Option<bool> {
    let mut v = Vals(vals.to_vec(), 0);
    let pre = any_abs(&mut v);
    if !pre.distinct() || pre.n > pre.cap { println!("counterexample outside the harness's assumptions"); return Some(true); }
    let mut l = build::<S>(&pre);
    if view(&l) != pre { println!("could not rebuild the pre-state through the public API: {:?} vs {:?}", view(&l), pre); return None; }
    println!("pre-state  : cap {} entries (MRU first) {:?}", pre.cap, (0..pre.n).map(|i| (pre.k[i], pre.v[i])).collect::<Vec<_>>());
    let ok = match harness {
        "put" => {
            let (k, val) = (v.next() as u8, v.next() as u8);
            println!("operation  : put({}, {})", k, val);
            let r = l.put(k, val);
            let (exp, exp_r) = spec_lru_put(&pre, k, val);
            let post = view(&l);
            println!("post-state : {:?} result {:?}", (0..post.n).map(|i| (post.k[i], post.v[i])).collect::<Vec<_>>(), pr_of(&r));
            report(pr_of(&r) == exp_r, "result", format!("{:?} expected {:?}", pr_of(&r), exp_r))
                & report(post.view_eq(&exp), "view after put", format!("expected {:?}", (0..exp.n).map(|i| (exp.k[i], exp.v[i])).collect::<Vec<_>>()))
        }
        "get" | "get_mut" => {
            let k = v.next() as u8;
            let w = if harness == "get_mut" { Some(v.next() as u8) } else { None };
            println!("operation  : {}({})", harness, k);
            let r = match w { Some(w) => l.get_mut(&k).map(|x| { let o = *x; *x = w; o }), None => l.get(&k).copied() };
            let exp = match pre.pos(k) { Some(i) => pre.touch(i, w), None => pre };
            let post = view(&l);
            report(r == pre.val_of(k), "returned value", format!("{:?} expected {:?}", r, pre.val_of(k)))
                & report(post.view_eq(&exp), "view after get", format!("{:?} expected {:?}", post, exp))
        }
        "peek_contains" => {
            let k = v.next() as u8;
            println!("operation  : peek({}) / contains", k);
            let r = l.peek(&k).copied();
            let c = l.contains(&k);
            let post = view(&l);
            report(r == pre.val_of(k) && c == pre.has(k), "lookup", format!("{:?} {}", r, c)) & report(post == pre, "view unchanged", format!("{:?}", post))
        }
        "remove" => {
            let k = v.next() as u8;
            println!("operation  : remove({})", k);
            let r = l.remove(&k);
            let exp = match pre.pos(k) { Some(i) => pre.remove_at(i), None => pre };
            let post = view(&l);
            report(r == pre.val_of(k), "returned value", format!("{:?}", r)) & report(post.view_eq(&exp), "view after remove", format!("{:?} expected {:?}", post, exp))
        }
        "remove_lru" => {
            println!("operation  : remove_lru()");
            let r = l.remove_lru();
            let exp = if pre.n == 0 { pre } else { pre.drop_last() };
            let post = view(&l);
            report(r == pre.last(), "returned pair", format!("{:?} expected {:?}", r, pre.last())) & report(post.view_eq(&exp), "view after remove_lru", format!("{:?}", post))
        }
        "purge" => {
            l.purge();
            let post = view(&l);
            report(post == Abs::empty(pre.cap), "view after purge", format!("{:?}", post))
        }
        "resize" => {
            let c = v.next() as usize;
            println!("operation  : resize({})", c);
            let r = l.resize(c);
            let dropped = if pre.n > c { pre.n - c } else { 0 };
            let post = view(&l);
            report(r == dropped as u64, "returned count", format!("{} expected {}", r, dropped))
                & report(post.view_eq(&pre.truncate(c).with_cap(c)), "view after resize", format!("{:?}", post))
        }
        _ => return None,
    };
    Some(ok)
}

fn main() {
    let args: Vec<String> = std::env::args().collect();
    if args.len() < 2 { eprintln!("usage: verif-replay <harness> <values...>"); std::process::exit(3); }
    // first value: NMAX of the Kani build that produced the counterexample (N + 1)
    unsafe { HARNESS_NMAX = args.get(2).and_then(|s| s.parse().ok()).unwrap_or(3) };
    let vals: Vec<u64> = args[3.min(args.len())..].iter().map(|s| s.parse().unwrap_or(0)).collect();
    println!("--- default hasher (RandomState)");
    let a = run::<std::collections::hash_map::RandomState>(&args[1], &vals);
    println!("--- constant-zero hasher (every key collides)");
    let b = run::<BuildHasherDefault<ZeroHasher>>(&args[1], &vals);
    match (a, b) {
        (Some(x), Some(y)) => std::process::exit(if x && y { 0 } else { 1 }),
        _ => { println!("harness not supported by the replay tool (or pre-state not reachable)"); std::process::exit(3) }
    }
}
