#!/usr/bin/env python3
"""Run the registered checks against every seeded change under /verif/seeded.

For each seed: a scratch worktree of /repo's HEAD is created under /tmp, the patch is applied there, the
checks of the seed's property (plus any extra properties given) run with VERIF_REPO pointing at the scratch
copy, and the worktree is removed.  /repo itself is never touched.  Results go to seeded/<id>/result.json and a
summary table to seeded/RESULTS.md.
usage: eval_seeds.py [--tier quick] [--only ID ...] [--props C01,C02]
"""
import argparse, json, os, subprocess, sys, time, glob, re
VERIF = os.path.dirname(os.path.dirname(os.path.abspath(__file__)))
sys.path.insert(0, os.path.join(VERIF, 'lib'))

def sh(cmd, **kw):
    return subprocess.run(cmd, shell=True, stdout=subprocess.PIPE, stderr=subprocess.STDOUT, text=True, **kw)

def main():
    ap = argparse.ArgumentParser()
    ap.add_argument('--tier', default='quick')
    ap.add_argument('--only', nargs='*')
    ap.add_argument('--props', default='')
    ap.add_argument('--wt', default='/tmp/seedwt', help='scratch worktree path (use different paths for concurrent runs)')
    ap.add_argument('--redo', action='store_true', help='also re-evaluate seeds that already have a verdict')
    a = ap.parse_args()
    import registry
    seeds = sorted(glob.glob(os.path.join(VERIF, 'seeded', '*', 'meta.json')))
    rows = []
    for mp in seeds:
        meta = json.load(open(mp))
        sid = meta['id']
        if a.only and sid not in a.only:
            continue
        if meta.get('harmless') and not a.only:
            continue
        if meta.get('last_evaluation') and not a.redo and not a.only:
            rows.append((sid, meta['property'], 'DETECTED by ' + ','.join(meta['detected_by']) if meta.get('detected_by') else 'MISSED', '; '.join(o for p in (meta.get('detected_by') or {}) for o in meta['detected_by'][p][:2])))
            continue
        d = os.path.dirname(mp)
        wt = a.wt   # one path for all seeds of a run: the Kani target dir (keyed by the path) and its compiled dependencies are reused
        sh('git -C /repo worktree remove --force %s' % wt)
        # Cargo.lock is not tracked in the repository: copy it, so that the scratch copy resolves (and hashes) like /repo
        r = sh('git -C /repo worktree add -q --detach %s HEAD && cp /repo/Cargo.lock %s/ && git -C %s apply %s/patch.diff' % (wt, wt, wt, d))
        if r.returncode != 0:
            rows.append((sid, meta['property'], 'PATCH DOES NOT APPLY', r.stdout[-300:]))
            sh('git -C /repo worktree remove --force %s' % wt)
            continue
        props = [meta['property']] + [p for p in a.props.split(',') if p and p != meta['property']]
        props = [p for p in props if p in registry.PROPERTIES]
        res = {}
        for p in props:
            t0 = time.time()
            env = dict(os.environ, VERIF_REPO=wt, VERIF_FAIL_FAST='1')
            out = subprocess.run([os.path.join(VERIF, 'run'), 'check', p, '--tier', a.tier, '--no-evidence'], cwd=VERIF, env=env,
                                 stdout=subprocess.PIPE, stderr=subprocess.PIPE, text=True)
            viol = [l for l in out.stdout.split('\n') if l.startswith('VIOLATION')]
            res[p] = dict(exit=out.returncode, violations=viol, seconds=round(time.time() - t0, 1), tail=out.stdout.strip().split('\n')[-3:])
        sh('git -C /repo worktree remove --force %s' % wt)
        sh('rm -rf %s' % wt)
        detected = [p for p, v in res.items() if v['exit'] == 1]
        found = {p: [re.sub(r'^VIOLATION property=\S+ replay=\S+ obligation=', '', l) for l in v['violations']] for p, v in res.items() if v['exit'] == 1}
        evaluation = dict(tier=a.tier, results={p: dict(exit=v['exit'], seconds=v['seconds']) for p, v in res.items()}, repo_head=sh('git -C /repo rev-parse --short HEAD').stdout.strip())
        if a.tier == 'thorough':
            meta['thorough_detected_by'] = found
            meta['thorough_evaluation'] = evaluation
        else:
            meta['detected_by'] = found
            meta['last_evaluation'] = evaluation
        json.dump(meta, open(mp, 'w'), indent=1)
        json.dump(res, open(os.path.join(d, 'result.json' if a.tier != 'thorough' else 'result_thorough.json'), 'w'), indent=1)
        rows.append((sid, meta['property'], 'DETECTED by ' + ','.join(detected) if detected else 'MISSED (exits: %s)' % {p: v['exit'] for p, v in res.items()},
                     '; '.join(o for p in detected for o in found[p][:2])))
        print(rows[-1], flush=True)
    write_results()


def write_results():
    """RESULTS.md always lists every seed, from the meta files"""
    lines = ['| seed | property | quick tier | thorough tier (only tried when quick missed) | first failed obligations |', '|---|---|---|---|---|']
    for mp in sorted(glob.glob(os.path.join(VERIF, 'seeded', '*', 'meta.json'))):
        m = json.load(open(mp))
        if m.get('harmless'):
            ev = m.get('last_evaluation')
            lines.append('| %s | %s (harmless edit) | %s | | |' % (m['id'], m['property'], 'exits: %s' % {p: v['exit'] for p, v in ev['results'].items()} if ev else 'not evaluated'))
            continue
        q = m.get('detected_by'); t = m.get('thorough_detected_by')
        qs = ('caught by ' + ', '.join(q)) if q else ('missed' if m.get('last_evaluation') else 'not evaluated')
        ts = ('caught by ' + ', '.join(t)) if t else ('missed' if m.get('thorough_evaluation') else '')
        obl = '; '.join(o for src in (q or t or {}).values() for o in src[:2])
        lines.append('| %s | %s | %s | %s | %s |' % (m['id'], m['property'], qs, ts, obl.replace('|', '/')[:300]))
    open(os.path.join(VERIF, 'seeded', 'RESULTS.md'), 'w').write('\n'.join(lines) + '\n')


if __name__ == '__main__':
    main()
