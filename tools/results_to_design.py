#!/usr/bin/env python3
"""Copies seeded/RESULTS.md (written by eval_seeds.py) into DESIGN.md section 11.5, with one line per seed:
what the change is (first line of the seeder's note), which check caught it and through which obligation."""
import json, glob, os, re
V = os.path.dirname(os.path.dirname(os.path.abspath(__file__)))
rows = []
for mp in sorted(glob.glob(os.path.join(V, 'seeded', '*', 'meta.json'))):
    m = json.load(open(mp))
    if m.get('harmless'):
        continue
    note = ' '.join(m.get('note', '').split())
    what = note[:150]
    ev = m.get('last_evaluation') or {}
    det = m.get('detected_by') or {}
    thor = m.get('thorough_detected_by') or {}
    if det:
        verdict = 'caught (quick) by ' + ', '.join(det)
        obl = '; '.join(re.sub(r' no-failing-input-found$', '', o) for p in det for o in det[p][:2])
    elif thor:
        verdict = 'missed by quick, caught (thorough) by ' + ', '.join(thor)
        obl = '; '.join(re.sub(r' no-failing-input-found$', '', o) for p in thor for o in thor[p][:2])
    elif ev:
        verdict = 'MISSED'
        obl = m.get('miss_reason', '')
    else:
        verdict = 'not evaluated'
        obl = ''
    rows.append('| %s | %s | %s | %s | %s |' % (m['id'], m['property'], what.replace('|', '/'), verdict, obl.replace('|', '/')[:260]))
table = '| seed | breaks | change (seeder\'s note, abridged) | verdict | failed obligations |\n|---|---|---|---|---|\n' + '\n'.join(rows)
p = os.path.join(V, 'DESIGN.md')
s = open(p).read()
a = s.index('### 11.5 Independently seeded changes')
marker = '(table inserted by the final evaluation run - see seeded/RESULTS.md)'
if marker in s:
    s = s.replace(marker, '<!-- seeds-table -->\n' + table + '\n<!-- /seeds-table -->')
else:
    s = re.sub(r'<!-- seeds-table -->.*?<!-- /seeds-table -->', lambda _: '<!-- seeds-table -->\n' + table + '\n<!-- /seeds-table -->', s, flags=re.S)
open(p, 'w').write(s)
print(len(rows), 'rows')
