#!/usr/bin/env python3
"""Mechanical extraction of Rust items from /repo for Verus.

Copies signature and body text byte-for-byte and splices contract text from an overlay
at ordinal anchors.  What is dropped / rewritten (exhaustive):
  * doc comments and outer attributes (#[inline], #[allow], #[derive], #[repr]) of the item;
  * visibility qualifiers `pub` / `pub(crate)` on extracted fns, structs and struct fields
    (single-file crate; no semantic effect);
  * `-> T` becomes `-> (r: T)` when the overlay names the result;
  * items not listed in the overlay are not copied at all;
  * anchor `Bk/end;` appends `;` to a unit-typed tail expression so a proof block can follow it;
  * `for_names` inserts a ghost-iterator binder into a for-loop header (`for P in E` => `for P in it: E`),
    Verus syntax that is erased with the ghost code; overlay `attrs` puts #[verifier::...] attributes
    on a copied item.
No expression or statement inside a copied body is rewritten; overlay text is only *inserted*
(between signature and body, before a `{` of a loop body, or before a statement).
A missing item or anchor raises LostAnchor (driver: exit 2, undecided), never a violation.
"""
import re, sys

class LostAnchor(Exception):
    pass

# ---------------------------------------------------------------- lexer
def mask(src):
    """Return a string of same length as src where comments, string/char literal contents are
    replaced by spaces (newlines kept), so brace matching can ignore them."""
    out = list(src)
    i, n = 0, len(src)
    def blank(a, b):
        for j in range(a, b):
            if out[j] != '\n':
                out[j] = ' '
    while i < n:
        c = src[i]
        if src.startswith('//', i):
            j = src.find('\n', i)
            if j < 0: j = n
            blank(i, j); i = j
        elif src.startswith('/*', i):
            depth, j = 1, i + 2
            while j < n and depth:
                if src.startswith('/*', j): depth += 1; j += 2
                elif src.startswith('*/', j): depth -= 1; j += 2
                else: j += 1
            blank(i, j); i = j
        elif c == '"':
            j = i + 1
            while j < n and src[j] != '"':
                j += 2 if src[j] == '\\' else 1
            blank(i + 1, j); i = j + 1
        elif c == 'r' and re.match(r'r#*"', src[i:i+8]) and (i == 0 or not (src[i-1].isalnum() or src[i-1] == '_')):
            m = re.match(r'r(#*)"', src[i:])
            close = '"' + m.group(1)
            j = src.find(close, i + len(m.group(0)))
            if j < 0: j = n
            blank(i + len(m.group(0)), j); i = j + len(close)
        elif c == "'":
            # char literal or lifetime
            m = re.match(r"'(\\.[^']*|[^'\\])'", src[i:])
            if m:
                blank(i + 1, i + len(m.group(0)) - 1); i += len(m.group(0))
            else:
                i += 1
        else:
            i += 1
    return ''.join(out)

def match_brace(m, i):
    """m: masked text, i: index of an opening bracket; returns index of matching close."""
    pairs = {'{': '}', '(': ')', '[': ']'}
    o = m[i]; c = pairs[o]
    depth = 0
    for j in range(i, len(m)):
        if m[j] == o: depth += 1
        elif m[j] == c:
            depth -= 1
            if depth == 0:
                return j
    raise LostAnchor('unbalanced bracket at %d' % i)

def find_open_brace(m, i):
    """first '{' at (), [] depth 0 at or after i; also stops at ';' (returns -1)."""
    depth = 0
    j = i
    while j < len(m):
        ch = m[j]
        if ch in '([': depth += 1
        elif ch in ')]': depth -= 1
        elif ch == '{' and depth == 0: return j
        elif ch == ';' and depth == 0: return -1
        j += 1
    return -1

# ---------------------------------------------------------------- item finding
class Source:
    def __init__(self, path):
        self.path = path
        self.src = open(path).read()
        self.m = mask(self.src)
        self._cut_tests()

    def _cut_tests(self):
        # ignore #[cfg(test)] mod ... { } blocks
        for mt in re.finditer(r'#\[cfg\(test\)\]\s*(pub(\([a-z]+\))?\s+)?mod\s+\w+\s*\{', self.m):
            ob = mt.end() - 1
            cb = match_brace(self.m, ob)
            self.m = self.m[:mt.start()] + re.sub(r'[^\n]', ' ', self.m[mt.start():cb + 1]) + self.m[cb + 1:]

    def impls(self):
        """yield (header_text, self_type_name, trait_name_or_None, body_open, body_close)"""
        for mt in re.finditer(r'(?<![\w])impl\b', self.m):
            # must be at item level: crude check — preceded on its line only by whitespace/unsafe
            ls = self.m.rfind('\n', 0, mt.start()) + 1
            pre = self.m[ls:mt.start()].strip()
            if pre not in ('', 'unsafe'):
                continue
            ob = find_open_brace(self.m, mt.end())
            if ob < 0:
                continue
            header = self.src[mt.start():ob].strip()
            hm = self.m[mt.start():ob]
            # strip generics after impl
            h = hm[4:].lstrip()
            if h.startswith('<'):
                # skip balanced <>
                d = 0
                for k, ch in enumerate(h):
                    if ch == '<': d += 1
                    elif ch == '>' and h[k-1] != '-':
                        d -= 1
                        if d == 0:
                            h = h[k + 1:]; break
            # cut where clause
            h = re.split(r'\bwhere\b', h)[0]
            parts = re.split(r'\bfor\b', h)
            if len(parts) == 2:
                trait = re.match(r'\s*([\w:]+)', parts[0]).group(1).split('::')[-1]
                ty = parts[1]
            else:
                trait = None; ty = parts[0]
            tm = re.match(r"\s*&?\s*(?:'\w+\s+)?(?:mut\s+)?([\w:]+)", ty)
            tyname = tm.group(1).split('::')[-1] if tm else ty.strip()
            yield header, tyname, trait, ob, match_brace(self.m, ob)

    def find_fn(self, name, impl=None, trait=None, nth=0):
        """Return dict(header=impl header or None, sig=text from 'fn' to before body '{',
        body=text including braces, start=index)."""
        cands = []
        if impl is None:
            # free function at depth 0
            depth0 = self._depth_map()
            for mt in re.finditer(r'(?<![\w])fn\s+%s\b' % re.escape(name), self.m):
                if depth0[mt.start()] == 0:
                    cands.append((None, mt.start(), ''))
        else:
            for header, ty, tr, ob, cb in self.impls():
                if ty != impl or tr != trait:
                    continue
                depth = self._depth_map(ob + 1, cb)
                assoc = ''.join(self.src[ob + 1 + t.start():ob + 1 + t.end()] + '\n'
                                for t in re.finditer(r'(?<![\w])type\s+\w+\s*=[^;]*;', self.m[ob + 1:cb])
                                if depth[t.start()] == 0)
                for mt in re.finditer(r'(?<![\w])fn\s+%s\b' % re.escape(name), self.m[ob + 1:cb]):
                    if depth[mt.start()] == 0:
                        cands.append((header, ob + 1 + mt.start(), assoc))
        if len(cands) <= nth:
            raise LostAnchor('fn %s::%s (trait %s) #%d not found in %s' % (impl, name, trait, nth, self.path))
        header, st, assoc = cands[nth]
        ob = find_open_brace(self.m, st)
        if ob < 0:
            raise LostAnchor('fn %s has no body' % name)
        cb = match_brace(self.m, ob)
        return dict(header=header, assoc=assoc, sig=self.src[st:ob].rstrip(), body=self.src[ob:cb + 1], start=st,
                    line=self.src.count('\n', 0, st) + 1)

    def _depth_map(self, a=0, b=None):
        b = len(self.m) if b is None else b
        d = 0; out = []
        for ch in self.m[a:b]:
            if ch == '}': d -= 1
            out.append(d)
            if ch == '{': d += 1
        return out

    def find_struct(self, name):
        mt = re.search(r'(?<![\w])(?:struct|enum)\s+%s\b' % re.escape(name), self.m)
        if not mt:
            raise LostAnchor('struct %s not found in %s' % (name, self.path))
        # tuple struct or braced struct
        j = mt.end()
        # skip generics
        k = j
        while k < len(self.m) and self.m[k] not in '({;':
            k += 1
        if self.m[k] == '(':
            e = match_brace(self.m, k)
            e = self.m.index(';', e)
        elif self.m[k] == '{':
            e = match_brace(self.m, k)
        else:
            e = k
        return self.src[mt.start():e + 1]

    def find_const(self, name):
        mt = re.search(r'(?<![\w])const\s+%s\s*:[^;]*;' % re.escape(name), self.m)
        if not mt:
            raise LostAnchor('const %s not found in %s' % (name, self.path))
        return self.src[mt.start():mt.end()]

# ---------------------------------------------------------------- body splicing
BLOCKY = re.compile(r'\s*(if|while|for|loop|match|unsafe)\b|\s*\{')

def blocks_of(body):
    """body: text starting with '{' and ending with '}'.  Returns list of (open, close) index pairs
    for every brace block in lexical order of their opening brace; block 0 is the body itself."""
    m = mask(body)
    res = []
    for i, ch in enumerate(m):
        if ch == '{':
            res.append((i, match_brace(m, i)))
    return m, res

def stmt_starts(m, ob, cb):
    """start offsets of the top-level statements of the block m[ob..cb]; the tail expression counts."""
    starts = []
    i = ob + 1
    n = cb
    def skip_ws(i):
        while i < n and m[i] in ' \t\r\n':
            i += 1
        return i
    i = skip_ws(i)
    while i < n:
        starts.append(i)
        blocky = bool(BLOCKY.match(m, i))
        depth = 0
        j = i
        while j < n:
            ch = m[j]
            if ch in '([{': depth += 1
            elif ch in ')]}':
                depth -= 1
                if depth == 0 and ch == '}' and blocky:
                    k = skip_ws(j + 1)
                    if m.startswith('else', k) and not (m[k+4].isalnum() or m[k+4] == '_'):
                        j = k + 4
                        continue
                    # a blocky statement may still continue as an expression (`.method()`, `;`)
                    if k < n and m[k] in '.?':
                        blocky = False
                        j += 1
                        continue
                    if k < n and m[k] == ';':
                        j = k
                    break
            elif ch == ';' and depth == 0:
                break
            j += 1
        i = skip_ws(j + 1)
    return starts

def splice(fn, item):
    """fn: result of find_fn; item: overlay dict.  Returns verus text of the function."""
    sig = fn['sig']
    sig = re.sub(r'^(pub(\s*\([^)]*\))?\s+)', '', sig)
    if item.get('ret'):
        # rewrite the LAST top-level '->' return type:  -> T   =>   -> (r: T)
        msig = mask(sig)
        # find '->' at paren depth 0
        depth = 0; pos = -1
        for i, ch in enumerate(msig):
            if ch in '(<[': depth += 1 if ch != '<' else 0
            if ch == '(' : pass
        depth = 0
        for i in range(len(msig) - 1):
            ch = msig[i]
            if ch in '([': depth += 1
            elif ch in ')]': depth -= 1
            elif ch == '-' and msig[i+1] == '>' and depth == 0:
                pos = i
        if pos < 0:
            raise LostAnchor('fn %s: no return type to name' % item['name'])
        wm = re.search(r'\bwhere\b', msig[pos:])
        end = pos + wm.start() if wm else len(sig)
        ty = sig[pos + 2:end].strip()
        sig = sig[:pos] + '-> (%s: %s)' % (item['ret'], ty) + ('\n    ' + sig[end:] if wm else '')
    spec = item.get('spec', '').rstrip()
    body = fn['body']
    if item.get('external_body'):
        return '#[verifier::external_body]\n' + sig + '\n' + spec + '\n{ unimplemented!() }\n'
    ins = []  # (offset, text)
    m, blks = blocks_of(body)
    # name the ghost iterator of the k-th `for` loop:  for PAT in EXPR {  =>  for PAT in NAME: EXPR {
    # (Verus binder syntax for the loop's ghost iterator; erased with the rest of the ghost code)
    for k, nm in (item.get('for_names') or {}).items():
        fors = list(re.finditer(r'\bfor\s+[^;{}]+?\s+in\s+', m))
        if int(k) >= len(fors):
            raise LostAnchor('fn %s: for-loop %s missing' % (item['name'], k))
        ins.append((fors[int(k)].end(), nm + ': '))
    for key, text in (item.get('loops') or {}).items():
        bi = int(key.lstrip('B'))
        if bi >= len(blks):
            raise LostAnchor('fn %s: block %s missing' % (item['name'], key))
        ins.append((blks[bi][0], '\n' + text.rstrip() + '\n'))
    for key, text in (item.get('stmts') or {}).items():
        expect = None
        if '~' in key:
            key, expect = key.split('~', 1)
        b, s = key.split('/')
        bi = int(b.lstrip('B'))
        if bi >= len(blks):
            raise LostAnchor('fn %s: block %s missing' % (item['name'], b))
        ob, cb = blks[bi]
        if s == 'end;':
            # the block ends in a unit-typed tail expression: terminate it with ';' so that a proof
            # block can follow (the only body rewrite the extractor ever performs; listed in the docstring)
            off = cb
            k = cb - 1
            while body[k] in ' \t\r\n':
                k -= 1
            text = ';\n' + text
            off = k + 1
        elif s == 'end':
            off = cb
        else:
            st = stmt_starts(m, ob, cb)
            si = int(s)
            if si >= len(st):
                raise LostAnchor('fn %s: stmt %s missing' % (item['name'], key))
            off = st[si]
            if expect is not None and not body[off:].startswith(expect):
                raise LostAnchor('fn %s: stmt %s does not start with %r' % (item['name'], key, expect))
        ins.append((off, text.rstrip() + '\n'))
    ins.sort(key=lambda t: -t[0])
    for off, text in ins:
        body = body[:off] + text + body[off:]
    return item.get('attrs', '') + sig + '\n' + spec + '\n' + body + '\n'

def strip_vis_struct(text):
    text = re.sub(r'(?m)^\s*(///|//!).*\n', '', text)
    text = re.sub(r'\bpub(\s*\([^)]*\))?\s+', '', text)
    return text

def build_unit(repo, overlay):
    """overlay: dict(name, prelude(str), items[list]).  Returns (text, meta) where meta lists the
    functions under contract with file:line."""
    srcs = {}
    def S(rel):
        if rel not in srcs:
            srcs[rel] = Source(repo + '/' + rel)
        return srcs[rel]
    out = ['// GENERATED by /verif/verus/extract.py from /repo — do not edit\n', overlay.get('crate_attrs', ''),
           '#![allow(unused_imports, dead_code, unused_variables, unused_mut, unused_parens)]\n',
           'use vstd::prelude::*;\n', overlay.get('uses', ''), '\nverus! {\n', overlay.get('prelude', ''), '\n']
    meta = []
    for it in overlay['items']:
        kind = it['kind']
        if kind == 'struct':
            raw = S(it['file']).find_struct(it['name'])
            # keep_vis: only doc comments are dropped (a public enum whose open spec fns must see its constructors)
            out.append(it.get('attrs', '') + (('pub ' + re.sub(r'(?m)^\s*(///|//!).*\n', '', raw)) if it.get('keep_vis') else strip_vis_struct(raw)) + '\n')
        elif kind == 'const':
            out.append(strip_vis_struct(S(it['file']).find_const(it['name'])) + '\n')
        elif kind == 'raw':
            out.append(it['text'] + '\n')
        elif kind == 'fn':
            fn = S(it['file']).find_fn(it['name'], it.get('impl'), it.get('trait'), it.get('nth', 0))
            text = splice(fn, it)
            if fn['header']:
                hdr = it.get('header') or fn['header']
                text = hdr + ' {\n' + fn['assoc'] + text + '}\n'
            out.append('// --- %s:%d %s%s\n' % (it['file'], fn['line'], (it.get('impl') + '::') if it.get('impl') else '', it['name']))
            out.append(text + '\n')
            meta.append(dict(function='%s%s' % ((it.get('impl') + '::') if it.get('impl') else '', it['name']),
                             file=it['file'], line=fn['line'], external_body=bool(it.get('external_body')),
                             props=it.get('props', [])))
        else:
            raise ValueError(kind)
    out.append('\n} // verus!\nfn main() {}\n')
    return ''.join(out), meta

if __name__ == '__main__':
    import importlib.util
    spec = importlib.util.spec_from_file_location('ov', sys.argv[1])
    ov = importlib.util.module_from_spec(spec); spec.loader.exec_module(ov)
    text, meta = build_unit(sys.argv[2] if len(sys.argv) > 2 else '/repo', ov.UNIT)
    sys.stdout.write(text)
