// ---- layer 2 of DESIGN.md 4.3: the exact aged access-count model, as ghost state of these lemmas.
// Per 64-bit hash h:  seen(h) in {false,true},  cnt(h) in 0..=15, evolving exactly as the statement of C11:
//   first access in a sample window sets `seen`, further ones count up to 15, a reset halves cnt and
//   clears seen, clear zeroes both.

pub struct Exact {
    pub seen: spec_fn(u64) -> bool,
    pub cnt: spec_fn(u64) -> int,
}

pub open spec fn exact_zero() -> Exact {
    Exact { seen: |h: u64| false, cnt: |h: u64| 0int }
}

pub open spec fn exact_record(m: Exact, h: u64) -> Exact {
    if (m.seen)(h) {
        Exact { seen: m.seen, cnt: |x: u64| if x == h { sat15((m.cnt)(x)) } else { (m.cnt)(x) } }
    } else {
        Exact { seen: |x: u64| x == h || (m.seen)(x), cnt: m.cnt }
    }
}

pub open spec fn exact_reset(m: Exact) -> Exact {
    Exact { seen: |h: u64| false, cnt: |h: u64| (m.cnt)(h) / 2 }
}

impl<K: Hash + Eq, KH: KeyHasher<K>> TinyLFU<K, KH> {
    /// J: the real estimator dominates the exact model
    pub open spec fn dominates(&self, m: Exact) -> bool {
        &&& (forall|h: u64| #[trigger] (m.seen)(h) ==> self.dk().has(h))                       // no false negatives
        &&& (forall|h: u64, r: int| 0 <= r < 4 ==> ((m.cnt)(h) <= self.sk().cnt(r, #[trigger] self.sk().pos(r, h)) && 0 <= (m.cnt)(h)))  // rows dominate the exact aged count
    }

    pub open spec fn exact_after_tick(&self, m: Exact) -> Exact {
        if self.window() + 1 >= self.sample_size() { exact_reset(m) } else { m }
    }
}

proof fn lemma_sat15_mono(a: int, b: int)
    requires a <= b
    ensures sat15(a) <= sat15(b), a <= 15 ==> a <= sat15(a)
{}

/// recording one access preserves J (including the Bloom false-positive path: the doorkeeper already
/// "has" a key the model never saw, so the sketch is bumped instead)
proof fn lemma_record_preserves<K: Hash + Eq, KH: KeyHasher<K>>(o: &TinyLFU<K, KH>, mid: &TinyLFU<K, KH>, h: u64, m: Exact)
    requires o.inv(), mid.inv(), o.dominates(m), mid.recorded_from(o, h)
    ensures mid.dominates(exact_record(m, h))
{
    let m2 = exact_record(m, h);
    assert(mid.sk().same_shape(o.sk()));
    assert forall|x: u64| #[trigger] (m2.seen)(x) implies mid.dk().has(x) by {
        if o.dk().has(h) {
            // bits unchanged
            if (m.seen)(x) { assert(o.dk().has(x)); lemma_has_monotone(o.dk(), mid.dk(), x); } else { lemma_has_monotone(o.dk(), mid.dk(), h); }
        } else {
            if x == h { } else { assert((m.seen)(x)); assert(o.dk().has(x)); lemma_has_monotone(o.dk(), mid.dk(), x); }
        }
    }
    assert forall|x: u64, r: int| 0 <= r < 4 implies ((m2.cnt)(x) <= mid.sk().cnt(r, #[trigger] mid.sk().pos(r, x)) && 0 <= (m2.cnt)(x)) by {
        let i = o.sk().pos(r, x);
        assert(mid.sk().pos(r, x) == i);
        assert(0 <= i < o.sk().width());
        assert(((m.cnt)(x) <= o.sk().cnt(r, o.sk().pos(r, x)) && 0 <= (m.cnt)(x)));
        if o.dk().has(h) {
            assert(mid.sk().bumped_from(o.sk(), h));
            assert(mid.sk().cnt(r, i) == (if i == o.sk().pos(r, h) { sat15(o.sk().cnt(r, i)) } else { o.sk().cnt(r, i) }));
            lemma_sat15_mono((m.cnt)(x), o.sk().cnt(r, i));
            if (m.seen)(h) && x == h { assert(i == o.sk().pos(r, h)); }
        } else {
            assert(mid.sk().same_counts(o.sk()));
            assert(mid.sk().cnt(r, i) == o.sk().cnt(r, i));
            assert(!(m.seen)(h)) by { if (m.seen)(h) { assert(o.dk().has(h)); } }
        }
    }
}

/// one window tick (try_reset) preserves J
proof fn lemma_tick_preserves<K: Hash + Eq, KH: KeyHasher<K>>(mid: &TinyLFU<K, KH>, fin: &TinyLFU<K, KH>, m: Exact)
    requires mid.inv(), fin.inv(), mid.dominates(m), fin.ticked_from(mid)
    ensures fin.dominates(mid.exact_after_tick(m))
{
    let m2 = mid.exact_after_tick(m);
    assert forall|x: u64| #[trigger] (m2.seen)(x) implies fin.dk().has(x) by {
        if mid.window() + 1 >= mid.sample_size() { } else { assert((m.seen)(x)); assert(mid.dk().has(x)); lemma_has_monotone(mid.dk(), fin.dk(), x); }
    }
    assert forall|x: u64, r: int| 0 <= r < 4 implies ((m2.cnt)(x) <= fin.sk().cnt(r, #[trigger] fin.sk().pos(r, x)) && 0 <= (m2.cnt)(x)) by {
        let i = mid.sk().pos(r, x);
        assert(0 <= i < mid.sk().width());
        assert(((m.cnt)(x) <= mid.sk().cnt(r, mid.sk().pos(r, x)) && 0 <= (m.cnt)(x)));
        if mid.window() + 1 >= mid.sample_size() {
            assert(fin.sk().halved_from(mid.sk()));
            assert(fin.sk().pos(r, x) == i);
            assert(fin.sk().cnt(r, i) == mid.sk().cnt(r, i) / 2);
        } else {
            assert(fin.sk().same_counts(mid.sk()));
            assert(fin.sk().pos(r, x) == i);
            assert(fin.sk().cnt(r, i) == mid.sk().cnt(r, i));
        }
    }
}

/// any estimator state dominates the all-zero model (in particular the state after `clear`)
proof fn lemma_zero_dominated<K: Hash + Eq, KH: KeyHasher<K>>(t: &TinyLFU<K, KH>)
    requires t.inv()
    ensures t.dominates(exact_zero())
{
    let m = exact_zero();
    assert forall|x: u64, r: int| 0 <= r < 4 implies ((m.cnt)(x) <= t.sk().cnt(r, #[trigger] t.sk().pos(r, x)) && 0 <= (m.cnt)(x)) by {
        assert(0 <= t.sk().pos(r, x) < t.sk().width());
    }
}

/// C11, first sentence: the estimate is never lower than the exact aged access count, and never above 16
proof fn lemma_never_undercounts<K: Hash + Eq, KH: KeyHasher<K>>(t: &TinyLFU<K, KH>, m: Exact, h: u64)
    requires t.inv(), t.dominates(m)
    ensures
        t.est(h) >= (if (m.seen)(h) { 1int } else { 0int }) + (m.cnt)(h),
        t.est(h) <= 16,
{
    assert(((m.cnt)(h) <= t.sk().cnt(0, t.sk().pos(0, h)) && 0 <= (m.cnt)(h)));
    assert(((m.cnt)(h) <= t.sk().cnt(1, t.sk().pos(1, h)) && 0 <= (m.cnt)(h)));
    assert(((m.cnt)(h) <= t.sk().cnt(2, t.sk().pos(2, h)) && 0 <= (m.cnt)(h)));
    assert(((m.cnt)(h) <= t.sk().cnt(3, t.sk().pos(3, h)) && 0 <= (m.cnt)(h)));
    assert(0 <= t.sk().pos(0, h) < t.sk().width());
    assert(t.sk().cnt(0, t.sk().pos(0, h)) <= 15);
}

/// C11: right after `clear` the estimate is 0 for every key
proof fn lemma_zero_after_clear<K: Hash + Eq, KH: KeyHasher<K>>(t: &TinyLFU<K, KH>, h: u64)
    requires t.inv(), t.dk().is_clear(), t.sk().is_zero()
    ensures t.est(h) == 0
{
    lemma_clear_has_nothing(t.dk(), h);
    assert(0 <= t.sk().pos(0, h) < t.sk().width());
    assert(0 <= t.sk().pos(1, h) < t.sk().width());
    assert(0 <= t.sk().pos(2, h) < t.sk().width());
    assert(0 <= t.sk().pos(3, h) < t.sk().width());
}

// ---- single-key mode: when only one hash h0 has ever been recorded (since the last clear) the estimate of h0 is exact

impl<K: Hash + Eq, KH: KeyHasher<K>> TinyLFU<K, KH> {
    /// the estimator holds exactly key h0's state: doorkeeper has h0 iff seen; every row's counter for h0 equals c
    pub open spec fn exactly(&self, h0: u64, seen: bool, c: int) -> bool {
        &&& seen == self.dk().has(h0)
        &&& 0 <= c <= 15
        &&& (forall|r: int| 0 <= r < 4 ==> self.sk().cnt(r, #[trigger] self.sk().pos(r, h0)) == c)
    }
}

proof fn lemma_single_key_exact<K: Hash + Eq, KH: KeyHasher<K>>(t: &TinyLFU<K, KH>, h0: u64, seen: bool, c: int)
    requires t.inv(), t.exactly(h0, seen, c)
    ensures t.est(h0) == (if seen { 1int } else { 0int }) + c
{
    assert(t.sk().cnt(0, t.sk().pos(0, h0)) == c);
    assert(t.sk().cnt(1, t.sk().pos(1, h0)) == c);
    assert(t.sk().cnt(2, t.sk().pos(2, h0)) == c);
    assert(t.sk().cnt(3, t.sk().pos(3, h0)) == c);
}

proof fn lemma_single_key_record<K: Hash + Eq, KH: KeyHasher<K>>(o: &TinyLFU<K, KH>, mid: &TinyLFU<K, KH>, h0: u64, seen: bool, c: int)
    requires o.inv(), mid.inv(), o.exactly(h0, seen, c), mid.recorded_from(o, h0)
    ensures mid.exactly(h0, true, if seen { sat15(c) } else { c })
{
    assert forall|r: int| 0 <= r < 4 implies mid.sk().cnt(r, #[trigger] mid.sk().pos(r, h0)) == (if seen { sat15(c) } else { c }) by {
        let i = o.sk().pos(r, h0);
        assert(0 <= i < o.sk().width());
        assert(mid.sk().pos(r, h0) == i);
        assert(o.sk().cnt(r, o.sk().pos(r, h0)) == c);
        if seen { assert(mid.sk().bumped_from(o.sk(), h0)); assert(mid.sk().cnt(r, i) == sat15(o.sk().cnt(r, i))); }
        else { assert(mid.sk().same_counts(o.sk())); assert(mid.sk().cnt(r, i) == o.sk().cnt(r, i)); }
    }
    if seen { lemma_has_monotone(o.dk(), mid.dk(), h0); }
}

proof fn lemma_single_key_tick<K: Hash + Eq, KH: KeyHasher<K>>(mid: &TinyLFU<K, KH>, fin: &TinyLFU<K, KH>, h0: u64, seen: bool, c: int)
    requires mid.inv(), fin.inv(), mid.exactly(h0, seen, c), fin.ticked_from(mid), fin.dk().locs() >= 1
    ensures
        mid.window() + 1 >= mid.sample_size() ==> fin.exactly(h0, false, c / 2),
        mid.window() + 1 < mid.sample_size() ==> fin.exactly(h0, seen, c),
{
    let reset = mid.window() + 1 >= mid.sample_size();
    assert forall|r: int| 0 <= r < 4 implies fin.sk().cnt(r, #[trigger] fin.sk().pos(r, h0)) == (if reset { c / 2 } else { c }) by {
        let i = mid.sk().pos(r, h0);
        assert(0 <= i < mid.sk().width());
        assert(mid.sk().cnt(r, mid.sk().pos(r, h0)) == c);
        if reset { assert(fin.sk().halved_from(mid.sk())); assert(fin.sk().pos(r, h0) == i); assert(fin.sk().cnt(r, i) == mid.sk().cnt(r, i) / 2); }
        else { assert(fin.sk().same_counts(mid.sk())); assert(fin.sk().pos(r, h0) == i); assert(fin.sk().cnt(r, i) == mid.sk().cnt(r, i)); }
    }
    if reset { lemma_clear_has_nothing(fin.dk(), h0); }
    else {
        if seen { lemma_has_monotone(mid.dk(), fin.dk(), h0); }
        else { if fin.dk().has(h0) { lemma_has_monotone(fin.dk(), mid.dk(), h0); } }
    }
}

// ---- induction over an arbitrary finite history of recorded accesses, ticks and clears

pub enum Op { Access(u64), Tick, Clear }

/// states[i+1] is related to states[i] by the contract of the i-th operation (the postconditions proved
/// above for the real increment*/try_reset/clear bodies)
pub open spec fn step_ok<K: Hash + Eq, KH: KeyHasher<K>>(a: &TinyLFU<K, KH>, b: &TinyLFU<K, KH>, op: Op) -> bool {
    match op {
        Op::Access(h) => exists|mid: TinyLFU<K, KH>| #[trigger] mid.recorded_from(a, h) && mid.inv() && b.ticked_from(&mid),
        Op::Tick => b.ticked_from(a),
        Op::Clear => b.dk().is_clear() && b.sk().is_zero() && b.window() == 0,
    }
}

pub open spec fn history_ok<K: Hash + Eq, KH: KeyHasher<K>>(states: Seq<TinyLFU<K, KH>>, ops: Seq<Op>) -> bool {
    &&& states.len() == ops.len() + 1
    &&& (forall|i: int| 0 <= i < states.len() ==> (#[trigger] states[i]).inv())
    &&& states[0].dk().is_clear() && states[0].sk().is_zero()
    &&& (forall|i: int| 0 <= i < ops.len() ==> step_ok(&states[i], &states[i + 1], #[trigger] ops[i]))
}

/// the exact model after a history (what C11's statement calls the exact aged access count)
pub open spec fn exact_after<K: Hash + Eq, KH: KeyHasher<K>>(states: Seq<TinyLFU<K, KH>>, ops: Seq<Op>, n: int) -> Exact
    decreases n
{
    if n <= 0 { exact_zero() } else {
        let m = exact_after(states, ops, n - 1);
        match ops[n - 1] {
            Op::Access(h) => {
                let m1 = exact_record(m, h);
                // the tick that follows the access: reset exactly when the window counter reaches the sample size
                if states[n].window() == 0 { exact_reset(m1) } else { m1 }
            },
            Op::Tick => if states[n].window() == 0 { exact_reset(m) } else { m },
            Op::Clear => exact_zero(),
        }
    }
}

/// C11 for every interleaving: after any finite history of increment*/try_reset/clear starting from a
/// cleared estimator, every estimate is at least the exact aged access count and at most 16
proof fn theorem_never_undercounts<K: Hash + Eq, KH: KeyHasher<K>>(states: Seq<TinyLFU<K, KH>>, ops: Seq<Op>, n: int, h: u64)
    requires history_ok(states, ops), 0 <= n <= ops.len()
    ensures
        states[n].dominates(exact_after(states, ops, n)),
        states[n].est(h) >= (if (exact_after(states, ops, n).seen)(h) { 1int } else { 0int }) + (exact_after(states, ops, n).cnt)(h),
        states[n].est(h) <= 16,
    decreases n
{
    if n == 0 {
        lemma_zero_dominated(&states[0]);
    } else {
        theorem_never_undercounts(states, ops, n - 1, h);
        let a = states[n - 1];
        let b = states[n];
        let m = exact_after(states, ops, n - 1);
        assert(step_ok(&a, &b, ops[n - 1]));
        match ops[n - 1] {
            Op::Access(hh) => {
                let mid = choose|mid: TinyLFU<K, KH>| #[trigger] mid.recorded_from(&a, hh) && mid.inv() && b.ticked_from(&mid);
                lemma_record_preserves(&a, &mid, hh, m);
                lemma_tick_preserves(&mid, &b, exact_record(m, hh));
                // ticked_from: b.window() == 0 exactly when the reset happened (sample_size >= 1, window < sample_size)
                assert((mid.window() + 1 >= mid.sample_size()) == (b.window() == 0));
            },
            Op::Tick => {
                lemma_tick_preserves(&a, &b, m);
                assert((a.window() + 1 >= a.sample_size()) == (b.window() == 0));
            },
            Op::Clear => { lemma_zero_dominated(&b); },
        }
    }
    lemma_never_undercounts(&states[n], exact_after(states, ops, n), h);
}


proof fn lemma_cleared_is_exactly_zero<K: Hash + Eq, KH: KeyHasher<K>>(t: &TinyLFU<K, KH>, h0: u64)
    requires t.inv(), t.dk().is_clear(), t.sk().is_zero()
    ensures t.exactly(h0, false, 0)
{
    lemma_clear_has_nothing(t.dk(), h0);
    assert forall|r: int| 0 <= r < 4 implies t.sk().cnt(r, #[trigger] t.sk().pos(r, h0)) == 0 by {
        assert(0 <= t.sk().pos(r, h0) < t.sk().width());
    }
}

/// C11: "it is exact when only one key has ever been recorded" - for every history whose recorded
/// accesses all carry the same hash h0, the estimate of h0 equals its exact aged access count
proof fn theorem_single_key_exact<K: Hash + Eq, KH: KeyHasher<K>>(states: Seq<TinyLFU<K, KH>>, ops: Seq<Op>, n: int, h0: u64)
    requires
        history_ok(states, ops), 0 <= n <= ops.len(),
        forall|i: int| 0 <= i < ops.len() ==> (#[trigger] ops[i] matches Op::Access(h) ==> h == h0),
    ensures
        states[n].exactly(h0, (exact_after(states, ops, n).seen)(h0), (exact_after(states, ops, n).cnt)(h0)),
        states[n].est(h0) == (if (exact_after(states, ops, n).seen)(h0) { 1int } else { 0int }) + (exact_after(states, ops, n).cnt)(h0),
    decreases n
{
    if n == 0 {
        lemma_cleared_is_exactly_zero(&states[0], h0);
    } else {
        theorem_single_key_exact(states, ops, n - 1, h0);
        let a = states[n - 1];
        let b = states[n];
        let m = exact_after(states, ops, n - 1);
        let (s, c) = ((m.seen)(h0), (m.cnt)(h0));
        assert(step_ok(&a, &b, ops[n - 1]));
        match ops[n - 1] {
            Op::Access(hh) => {
                assert(hh == h0);
                let mid = choose|mid: TinyLFU<K, KH>| #[trigger] mid.recorded_from(&a, hh) && mid.inv() && b.ticked_from(&mid);
                lemma_single_key_record(&a, &mid, h0, s, c);
                lemma_single_key_tick(&mid, &b, h0, true, if s { sat15(c) } else { c });
                assert((mid.window() + 1 >= mid.sample_size()) == (b.window() == 0));
            },
            Op::Tick => {
                lemma_single_key_tick(&a, &b, h0, s, c);
                assert((a.window() + 1 >= a.sample_size()) == (b.window() == 0));
            },
            Op::Clear => { lemma_cleared_is_exactly_zero(&b, h0); },
        }
    }
    lemma_single_key_exact(&states[n], h0, (exact_after(states, ops, n).seen)(h0), (exact_after(states, ops, n).cnt)(h0));
}

// ---- negative controls: these MUST fail (the driver discards the unit if they verify)

/// claims the estimate never OVER-counts: false (collisions, Bloom false positives)
proof fn negctl_never_overcounts<K: Hash + Eq, KH: KeyHasher<K>>(t: &TinyLFU<K, KH>, m: Exact, h: u64)
    requires t.inv(), t.dominates(m)
    ensures t.est(h) <= (if (m.seen)(h) { 1int } else { 0int }) + (m.cnt)(h)
{
}

/// claims a recorded access always bumps the sketch: false (the first access only sets the doorkeeper)
proof fn negctl_record_always_bumps<K: Hash + Eq, KH: KeyHasher<K>>(o: &TinyLFU<K, KH>, mid: &TinyLFU<K, KH>, h: u64)
    requires o.inv(), mid.inv(), mid.recorded_from(o, h)
    ensures mid.sk().bumped_from(o.sk(), h)
{
}
