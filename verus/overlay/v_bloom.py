# V-BLOOM: Bloom filter ("doorkeeper") functions extracted verbatim from src/lfu/tinylfu/bloom.rs
F = 'src/lfu/tinylfu/bloom.rs'

PRELUDE = r'''
global size_of usize == 8;

pub assume_specification<T: Clone>[ <[T]>::fill ](s: &mut [T], value: T)
    ensures
        final(s)@.len() == old(s)@.len(),
        forall|i: int| 0 <= i < old(s)@.len() ==> final(s)@[i] == value,
;

// ---- abstract view of the bit set
pub open spec fn word_bit(w: u64, b: u64) -> bool { (w & (1u64 << b)) != 0 }
pub open spec fn bit(s: Seq<u64>, idx: int) -> bool { word_bit(s[idx / 64], (idx % 64) as u64) }

proof fn lemma_idx(idx: u64)
    ensures (idx >> 6) == idx / 64, idx % 64 < 64
{
    assert((idx >> 6) == idx / 64) by(bit_vector);
}

proof fn lemma_set_bit(w: u64, b: u64, c: u64)
    requires b < 64, c < 64
    ensures
        word_bit(w | (1u64 << b), b),
        c != b ==> word_bit(w | (1u64 << b), c) == word_bit(w, c),
        word_bit(w, c) ==> word_bit(w | (1u64 << b), c),
{
    assert(b < 64 ==> ((w | (1u64 << b)) & (1u64 << b)) != 0) by(bit_vector);
    assert(b < 64 && c < 64 && c != b ==> (((w | (1u64 << b)) & (1u64 << c)) != 0) == ((w & (1u64 << c)) != 0)) by(bit_vector);
}

proof fn lemma_zero_word(c: u64)
    ensures !word_bit(0u64, c)
{
    assert((0u64 & (1u64 << c)) == 0) by(bit_vector);
}

proof fn lemma_mask_le(x: u64, m: u64)
    ensures (x & m) <= m
{
    assert((x & m) <= m) by(bit_vector);
}

proof fn lemma_shift_bounds(hash: u64, shift: u64)
    requires 0 < shift < 64
    ensures
        (hash >> shift) < (1u64 << ((64 - shift) as u64)),
        ((hash << shift) >> shift) < (1u64 << ((64 - shift) as u64)),
        (1u64 << ((64 - shift) as u64)) <= 0x8000_0000_0000_0000u64,
{
    assert(0 < shift < 64 ==> (hash >> shift) < (1u64 << ((64 - shift) as u64))) by(bit_vector);
    assert(0 < shift < 64 ==> ((hash << shift) >> shift) < (1u64 << ((64 - shift) as u64))) by(bit_vector);
    assert(0 < shift < 64 ==> (1u64 << ((64 - shift) as u64)) <= 0x8000_0000_0000_0000u64) by(bit_vector);
}

impl Bloom {
    pub closed spec fn bits(&self) -> Seq<u64> { self.bitset@ }
    pub closed spec fn nbits(&self) -> int { 64 * (self.bitset@.len() as int) }
    pub closed spec fn locs(&self) -> u64 { self.set_locs }
    pub closed spec fn mask(&self) -> u64 { self.size }
    pub closed spec fn sh(&self) -> u64 { self.shift }
    pub closed spec fn elems(&self) -> u64 { self.elem_num }

    /// representation invariant established by `new` (sizes within the bounds of DESIGN.md 3.5):
    /// every masked index addresses a word of the bit set; the split of the hash into (h, l) uses a
    /// shift in 1..=55; (set_locs + 1) * 2^(64-shift) does not overflow.
    pub open spec fn inv(&self) -> bool {
        &&& self.mask() < self.nbits()
        &&& 0 < self.sh() < 64
        &&& 1 <= self.locs() < 2048
        &&& self.sh() >= 12
    }

    /// i-th probe position of `hash`
    pub open spec fn bitpos(&self, hash: u64, i: u64) -> u64 {
        (((hash >> self.sh()) + i * ((hash << self.sh()) >> self.sh())) as u64) & self.mask()
    }

    /// the filter claims to have seen `hash`
    pub open spec fn has(&self, hash: u64) -> bool {
        forall|i: u64| 0 <= i < self.locs() ==> bit(self.bits(), #[trigger] self.bitpos(hash, i) as int)
    }

    /// same configuration (everything but the bit set and the insertion counter)
    pub open spec fn same_config(&self, o: &Bloom) -> bool {
        self.locs() == o.locs() && self.mask() == o.mask() && self.sh() == o.sh() && self.nbits() == o.nbits()
    }

    /// every bit set in `o` is set in self
    pub open spec fn includes(&self, o: &Bloom) -> bool {
        forall|j: int| 0 <= j < o.nbits() && bit(o.bits(), j) ==> bit(self.bits(), j)
    }

    pub open spec fn is_clear(&self) -> bool {
        forall|j: int| 0 <= j < self.nbits() ==> !bit(self.bits(), j)
    }
}

proof fn lemma_probe_no_overflow(b: &Bloom, hash: u64, i: u64)
    requires b.inv(), i < b.locs()
    ensures
        (hash >> b.sh()) + i * ((hash << b.sh()) >> b.sh()) <= u64::MAX,
        i * ((hash << b.sh()) >> b.sh()) <= u64::MAX,
        b.bitpos(hash, i) <= b.mask(),
{
    let sh = b.sh();
    lemma_shift_bounds(hash, sh);
    let l = (hash << sh) >> sh;
    let h = hash >> sh;
    let bound = 1u64 << ((64 - sh) as u64);
    assert(sh >= 12 && sh < 64 ==> (1u64 << ((64 - sh) as u64)) <= 0x10_0000_0000_0000u64) by(bit_vector);
    assert(i * l <= 2048 * 0x10_0000_0000_0000) by(nonlinear_arith)
        requires i < 2048, l < 0x10_0000_0000_0000u64;
    lemma_mask_le((h + i * l) as u64, b.mask());
}

/// no false negatives: once a filter has a hash, every filter that includes its bits has it too
proof fn lemma_has_monotone(a: &Bloom, b: &Bloom, hash: u64)
    requires a.inv(), b.same_config(a), b.includes(a), a.has(hash)
    ensures b.has(hash)
{
    assert forall|i: u64| 0 <= i < b.locs() implies bit(b.bits(), #[trigger] b.bitpos(hash, i) as int) by {
        lemma_probe_no_overflow(a, hash, i);
        assert(b.bitpos(hash, i) == a.bitpos(hash, i));
        assert(bit(a.bits(), a.bitpos(hash, i) as int));
    }
}

/// a cleared filter has no hash, provided it probes at least one position
proof fn lemma_clear_has_nothing(b: &Bloom, hash: u64)
    requires b.inv(), b.is_clear(), b.locs() >= 1
    ensures !b.has(hash)
{
    lemma_probe_no_overflow(b, hash, 0);
    assert(!bit(b.bits(), b.bitpos(hash, 0) as int));
}
'''

ITEMS = [
    dict(kind='struct', file=F, name='Bloom'),
    dict(kind='raw', text=PRELUDE),
    dict(kind='fn', file=F, name='get_size', ret='r',
         spec='''    requires ui64 <= 0x8000_0000_0000_0000u64
    ensures r.0 >= ui64, r.0 >= 512, r.1 >= 9, r.1 <= 63, r.0 == (1u64 << r.1)''',
         loops={'B3': '''        invariant size == (1u64 << exponent), exponent <= 63, ui64 <= 0x8000_0000_0000_0000u64, ui64 >= 512,
            exponent < 9 ==> size < 512,
        decreases 64 - exponent'''},
         stmts={'B0/1~let mut size': 'proof { assert(1u64 == (1u64 << 0u64)) by(bit_vector); }',
                'B3/0': '''proof {
            let e = exponent; let s = size;
            assert(e <= 63 && s == (1u64 << e) && s < 0x8000_0000_0000_0000u64 ==> e < 63 && (s << 1u64) == (1u64 << ((e + 1) as u64)) && (s << 1u64) > s) by(bit_vector);
            assert(e < 8 && s == (1u64 << e) ==> (s << 1u64) < 512) by(bit_vector);
        }''',
                },
         props=['C05']),
    dict(kind='fn', file=F, impl='Bloom', name='clear',
         spec='''    ensures final(self).is_clear(), final(self).same_config(old(self)), final(self).elems() == old(self).elems()''',
         stmts={'B0/end;': '''proof {
            assert forall|j: int| 0 <= j < self.nbits() implies !bit(self.bits(), j) by { lemma_zero_word((j % 64) as u64); }
        }'''},
         props=['C11', 'C05']),
    dict(kind='fn', file=F, impl='Bloom', name='set',
         spec='''    requires idx < old(self).nbits()
    ensures
        final(self).same_config(old(self)), final(self).elems() == old(self).elems(),
        bit(final(self).bits(), idx as int),
        forall|j: int| 0 <= j < old(self).nbits() && j != idx ==> bit(final(self).bits(), j) == bit(old(self).bits(), j),
        final(self).includes(old(self))''',
         stmts={'B0/0': 'proof { lemma_idx(idx); }\n        let ghost pre = self.bitset@;',
                'B0/end': '''proof {
            let w = pre[(idx / 64) as int];
            assert forall|j: int| 0 <= j < 64 * pre.len() && j != idx implies bit(self.bitset@, j) == bit(pre, j) by {
                if j / 64 == idx / 64 { lemma_set_bit(w, idx % 64, (j % 64) as u64); }
            }
            lemma_set_bit(w, idx % 64, idx % 64);
        }'''},
         props=['C11', 'C05']),
    dict(kind='fn', file=F, impl='Bloom', name='is_set', ret='r',
         spec='''    requires idx < self.nbits()
    ensures r == bit(self.bits(), idx as int)''',
         stmts={'B0/0': 'proof { lemma_idx(idx); }'},
         props=['C11', 'C05']),
    dict(kind='fn', file=F, impl='Bloom', name='add',
         spec='''    requires old(self).inv(), old(self).elems() + old(self).locs() <= u64::MAX
    ensures
        final(self).inv(), final(self).same_config(old(self)),
        final(self).has(hash),                 // [C11] the doorkeeper remembers the key
        final(self).includes(old(self)),       // [C11] add only sets bits (no false negatives later)
        final(self).elems() == old(self).elems() + old(self).locs()''',
         loops={'B1': '''            invariant
                self.inv(), self.same_config(old(self)), self.includes(old(self)),
                h == hash >> self.sh(), l == (hash << self.sh()) >> self.sh(),
                self.elems() == old(self).elems() + i, old(self).elems() + old(self).locs() <= u64::MAX,
                i <= self.locs(),
                forall|j: u64| 0 <= j < i ==> bit(self.bits(), #[trigger] self.bitpos(hash, j) as int),'''},
         stmts={'B1/0': 'proof { lemma_probe_no_overflow(self, hash, i); }\n            let ghost before = *self;',
                'B1/end': '''proof {
                assert forall|j: u64| 0 <= j < i + 1 implies bit(self.bits(), #[trigger] self.bitpos(hash, j) as int) by {
                    if j < i { lemma_probe_no_overflow(&before, hash, j); assert(bit(before.bits(), before.bitpos(hash, j) as int)); }
                }
            }'''},
         props=['C11', 'C05']),
    dict(kind='fn', file=F, impl='Bloom', name='contains', ret='r',
         spec='''    requires self.inv()
    ensures r == self.has(hash)''',
         loops={'B1': '''            invariant
                self.inv(), h == hash >> self.sh(), l == (hash << self.sh()) >> self.sh(), i <= self.locs(),
                forall|j: u64| 0 <= j < i ==> bit(self.bits(), #[trigger] self.bitpos(hash, j) as int),'''},
         stmts={'B1/0': 'proof { lemma_probe_no_overflow(self, hash, i); }'},
         props=['C11', 'C05']),
    dict(kind='fn', file=F, impl='Bloom', name='contains_or_add', ret='r',
         spec='''    requires old(self).inv(), old(self).elems() + old(self).locs() <= u64::MAX
    ensures
        r == !old(self).has(hash),
        final(self).inv(), final(self).same_config(old(self)), final(self).has(hash), final(self).includes(old(self)),
        !r ==> final(self).bits() == old(self).bits(),
        final(self).elems() <= old(self).elems() + old(self).locs()''',
         props=['C11', 'C05']),
]

UNIT = dict(
    name='V-BLOOM',
    props=['C11', 'C05'],
    uses='',
    prelude='',
    items=ITEMS,
    negative_controls=[],
)
