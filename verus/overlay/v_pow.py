# V-POW: next_power_of_2 (src/lfu/tinylfu/sketch.rs) and the no_std CountMinSketch::new
# (src/lfu/tinylfu/sketch/count_min_sketch_core.rs; the std constructor has the same sizing code plus
# SystemTime/StdRng seeding that Verus cannot see).  Establishes the sketch invariant unit V-TLFU assumes.
import importlib.util, os
_here = os.path.dirname(os.path.abspath(__file__))
def _load(n):
    spec = importlib.util.spec_from_file_location(n, os.path.join(_here, n + '.py'))
    m = importlib.util.module_from_spec(spec); spec.loader.exec_module(m); return m
v_row = _load('v_row')

S = 'src/lfu/tinylfu/sketch.rs'
C = 'src/lfu/tinylfu/sketch/count_min_sketch_core.rs'
ROW = 'src/lfu/tinylfu/sketch/count_min_row.rs'
ERR = 'src/lfu/tinylfu/error.rs'

PRELUDE = r'''
pub open spec fn is_pow2(x: u64) -> bool { x != 0 && (x & sub(x, 1)) == 0 }

proof fn lemma_fill(n0: u64, a: u64, b: u64, c: u64, d: u64, e: u64)
    requires
        n0 < 0x1_0000_0000u64,
        a == n0 | (n0 >> 1), b == a | (a >> 2), c == b | (b >> 4), d == c | (c >> 8), e == d | (d >> 16),
    ensures
        e < 0x1_0000_0000u64, e >= n0, is_pow2(add(e, 1)), e / 2 <= n0,
        n0 >= 1 ==> add(e, 1) / 2 <= n0,
{
    assert(n0 < 0x1_0000_0000u64 && a == n0 | (n0 >> 1) && b == a | (a >> 2) && c == b | (b >> 4) && d == c | (c >> 8) && e == d | (d >> 16) && n0 >= 1
        ==> add(e, 1) / 2 <= n0) by(bit_vector);
    assert(n0 < 0x1_0000_0000u64 && a == n0 | (n0 >> 1) && b == a | (a >> 2) && c == b | (b >> 4) && d == c | (c >> 8) && e == d | (d >> 16)
        ==> e < 0x1_0000_0000u64 && e >= n0 && add(e, 1) != 0 && (add(e, 1) & sub(add(e, 1), 1)) == 0 && e / 2 <= n0) by(bit_vector);
}

proof fn lemma_pow2_even(x: u64)
    requires is_pow2(x), x >= 2
    ensures x % 2 == 0, 2 * (x / 2) == x
{
    assert(x != 0 && (x & sub(x, 1)) == 0 && x >= 2 ==> x % 2 == 0) by(bit_vector);
}

pub enum TinyLFUError {
    InvalidCountMinWidth(u64),
    InvalidSamples(usize),
    InvalidFalsePositiveRatio(f64),
}

impl CountMinSketch {
    pub closed spec fn mask_of(&self) -> u64 { self.mask }
    pub closed spec fn row_len(&self, r: int) -> int { self.rows[r]@.len() as int }
    pub closed spec fn cnt(&self, r: int, i: int) -> int { ctr(self.rows[r]@, i) }
    /// the shape part of the invariant unit V-TLFU assumes: a power-of-two number (>= 2) of counters per row
    pub open spec fn shape_ok(&self) -> bool {
        &&& is_pow2(add(self.mask_of(), 1))
        &&& self.mask_of() >= 1
        &&& (forall|r: int| 0 <= r < 4 ==> 2 * (#[trigger] self.row_len(r)) == self.mask_of() as int + 1)
    }
    pub open spec fn is_zero(&self) -> bool {
        forall|r: int, i: int| 0 <= r < 4 && 0 <= i <= self.mask_of() ==> #[trigger] self.cnt(r, i) == 0
    }
}
'''

ITEMS = [
    dict(kind='const', file=S, name='DEPTH'),
    dict(kind='struct', file=ROW, name='CountMinRow'),
    dict(kind='raw', text=v_row.PRELUDE.split('impl vstd::std_specs::core::IndexSpecImpl')[0]),
    dict(kind='fn', file=ROW, impl='CountMinRow', name='new', ret='r', external_body=True,
         spec=[i for i in v_row.ROW_ITEMS if i.get('name') == 'new'][0]['spec']),
    dict(kind='struct', file=C, name='CountMinSketch'),
    dict(kind='raw', text=PRELUDE),
    dict(kind='fn', file=S, name='next_power_of_2', ret='r',
         spec='''    requires 1 <= num <= 0x1_0000_0000u64
    ensures r >= num, is_pow2(r), r / 2 < num || num == 1, r <= 0x1_0000_0000u64''',
         stmts={'B0/1~num |= num >> 1': 'let ghost n0 = num;',
                'B0/2~num |= num >> 2': 'let ghost a = num;',
                'B0/3~num |= num >> 4': 'let ghost b = num;',
                'B0/4~num |= num >> 8': 'let ghost c = num;',
                'B0/5~num |= num >> 16': 'let ghost d = num;',
                'B0/6~num += 1': 'proof { lemma_fill(n0, a, b, c, d, num); }'},
         props=['C05', 'C11']),
    dict(kind='fn', file=C, impl='CountMinSketch', name='new', ret='r',
         spec='''    requires ctrs <= 0x1_0000_0000u64
    ensures
        ctrs < 1 ==> r is Err,                                   // [C05] zero width is rejected
        ctrs >= 1 ==> (r is Ok && r->Ok_0.shape_ok() && r->Ok_0.is_zero() && r->Ok_0.mask_of() + 1 >= ctrs),   // [C05][C11] every accepted width gives rows that can be indexed''',
         stmts={'B0/3~let this': 'proof { assert(is_pow2(2u64)) by(bit_vector); lemma_pow2_even(ctrs); }'},
         props=['C05', 'C11']),
]

UNIT = dict(
    name='V-POW',
    props=['C05', 'C11'],
    uses='use core::ops::{Index, IndexMut};\nuse vstd::std_specs::core::IndexSpecImpl;\n',
    prelude='',
    items=ITEMS,
    negative_controls=[],
)
