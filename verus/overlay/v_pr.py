# V-PR: PutResult::eq (impl PartialEq), extracted verbatim from src/lib.rs and proved for ALL payload types K, V
# (the Kani unit K-PR checks it for K = u8, V = u16 and relies on parametricity).
#
# The obligation is vstd's specification of PartialEq::eq:  obeys_eq_spec() ==> r == self.eq_spec(other),
# with eq_spec defined below as the last sentence of C12: same variant and equal payloads.  The real body compares the
# Update payloads as other == self and all other payloads as self == other, so "equal payloads" needs the payload
# equality of V to be symmetric (part of the documented PartialEq contract): stated in obeys_eq_spec.
# Not here: clone (tuple `evicted.clone()` is a built-in instance Verus rejects) and Copy: they stay with K-PR.
F = 'src/lib.rs'

SPEC = r'''
impl<K: PartialEq, V: PartialEq> PartialEqSpecImpl for PutResult<K, V> {
    /// payload equalities follow their own specification, and V's is symmetric
    open spec fn obeys_eq_spec() -> bool {
        &&& K::obeys_eq_spec() && V::obeys_eq_spec()
        &&& (forall|a: V, b: V| #[trigger] a.eq_spec(&b) == b.eq_spec(&a))
    }
    /// [C12] two results compare equal exactly when they are the same variant with equal payloads
    open spec fn eq_spec(&self, other: &Self) -> bool {
        match (self, other) {
            (PutResult::Put, PutResult::Put) => true,
            (PutResult::Update(a), PutResult::Update(b)) => a.eq_spec(b),
            (PutResult::Evicted { key, value }, PutResult::Evicted { key: ok, value: ov }) => key.eq_spec(ok) && value.eq_spec(ov),
            (PutResult::EvictedAndUpdate { evicted, update }, PutResult::EvictedAndUpdate { evicted: oe, update: ou }) =>
                evicted.0.eq_spec(&oe.0) && evicted.1.eq_spec(&oe.1) && update.eq_spec(ou),
            _ => false,
        }
    }
}

// ---- negative control (must FAIL: different variants are never equal)
proof fn negctl_put_equals_update<K: PartialEq, V: PartialEq>(v: V)
    ensures PartialEqSpec::eq_spec(&PutResult::<K, V>::Put, &PutResult::<K, V>::Update(v)),
{
}
'''

ITEMS = [
    dict(kind='struct', file=F, name='PutResult', keep_vis=True),
    dict(kind='raw', text=SPEC),
    dict(kind='fn', file=F, impl='PutResult', trait='PartialEq', name='eq', props=['C12']),
]

UNIT = dict(
    name='V-PR',
    props=['C12'],
    uses='use vstd::std_specs::cmp::*;\n',
    prelude='',
    items=ITEMS,
    negative_controls=['negctl_put_equals_update'],
)
