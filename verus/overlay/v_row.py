# V-ROW: CountMinRow::{new,get,increment} + Index impl, extracted verbatim from
# src/lfu/tinylfu/sketch/count_min_row.rs
F = 'src/lfu/tinylfu/sketch/count_min_row.rs'

PRELUDE = r'''
global size_of usize == 8;

// ---- abstract view of a row: counter i is nibble (i%2) of byte i/2
pub open spec fn nib(b: u8, odd: bool) -> u8 { if odd { (b >> 4u8) & 0x0fu8 } else { b & 0x0fu8 } }
pub open spec fn ctr(s: Seq<u8>, i: int) -> int { nib(s[i / 2], i % 2 == 1) as int }

proof fn lemma_nib_read(b: u8, i: u64)
    ensures
        (i & 1) * 4 == (if i % 2 == 1 { 4u64 } else { 0u64 }),
        ((b >> ((i & 1) * 4)) & 0x0f) == nib(b, i % 2 == 1),
        nib(b, i % 2 == 1) <= 15,
{
    assert((i & 1) * 4 == (if i % 2 == 1 { 4u64 } else { 0u64 })) by(bit_vector);
    assert(((b >> ((i & 1) * 4)) & 0x0f) == nib(b, i % 2 == 1)) by(bit_vector);
    assert(nib(b, i % 2 == 1) <= 15) by(bit_vector);
}

proof fn lemma_nib_bump(b: u8, i: u64)
    requires nib(b, i % 2 == 1) < 15
    ensures
        (1u8 << ((i & 1) * 4)) == (if i % 2 == 1 { 16u8 } else { 1u8 }),
        b as int + (if i % 2 == 1 { 16int } else { 1int }) <= 255,
        nib(add(b, if i % 2 == 1 { 16u8 } else { 1u8 }), i % 2 == 1) == nib(b, i % 2 == 1) + 1,
        nib(add(b, if i % 2 == 1 { 16u8 } else { 1u8 }), !(i % 2 == 1)) == nib(b, !(i % 2 == 1)),
{
    assert((1u8 << ((i & 1) * 4)) == (if i % 2 == 1 { 16u8 } else { 1u8 })) by(bit_vector);
    if i % 2 == 1 {
        assert(((b >> 4u8) & 0x0fu8) < 15 ==> b <= 239u8
            && ((add(b, 16u8) >> 4u8) & 0x0fu8) == ((b >> 4u8) & 0x0fu8) + 1
            && (add(b, 16u8) & 0x0fu8) == (b & 0x0fu8)) by(bit_vector);
    } else {
        assert((b & 0x0fu8) < 15 ==> b <= 254u8
            && (add(b, 1u8) & 0x0fu8) == (b & 0x0fu8) + 1
            && ((add(b, 1u8) >> 4u8) & 0x0fu8) == ((b >> 4u8) & 0x0fu8)) by(bit_vector);
    }
}

impl CountMinRow {
    pub closed spec fn view(&self) -> Seq<u8> { self.0@ }
    // number of 4-bit counters
    pub open spec fn counters(&self) -> int { 2 * (self@.len() as int) }
}

impl vstd::std_specs::core::IndexSpecImpl<usize> for CountMinRow {
    open spec fn index_req(&self, index: &usize) -> bool { *index < self@.len() }
}
'''

ROW_ITEMS = [
    dict(kind='struct', file=F, name='CountMinRow'),
    dict(kind='raw', text=None),  # placeholder replaced below (prelude part that needs the struct)
    dict(kind='fn', file=F, impl='CountMinRow', trait='Index', name='index', ret='r',
         spec='    ensures *r == self@[index as int]', props=['C05', 'C11']),
    dict(kind='fn', file=F, impl='CountMinRow', name='new', ret='r',
         spec='''    ensures r@.len() == width, forall|i: int| 0 <= i < 2 * width ==> ctr(r@, i) == 0''',
         stmts={'B0/0': '''proof { assert(nib(0u8, true) == 0 && nib(0u8, false) == 0) by(bit_vector); }'''},
         props=['C05', 'C11']),
    dict(kind='fn', file=F, impl='CountMinRow', name='get', ret='r',
         spec='''    requires i < self.counters()
    ensures r as int == ctr(self@, i as int), r <= 15''',
         stmts={'B0/0': 'proof { lemma_nib_read(self@[(i / 2) as int], i); }'},
         props=['C05', 'C11']),
    dict(kind='fn', file=F, impl='CountMinRow', name='increment',
         spec='''    requires i < old(self).counters()
    ensures
        final(self)@.len() == old(self)@.len(),
        ctr(final(self)@, i as int) == (if ctr(old(self)@, i as int) < 15 { ctr(old(self)@, i as int) + 1 } else { 15 }),
        forall|j: int| 0 <= j < old(self).counters() && j != i ==> ctr(final(self)@, j) == ctr(old(self)@, j)''',
         stmts={
             'B0/0~let idx': 'proof { lemma_nib_read(self@[(i / 2) as int], i); }',
             'B0/3~if v < 15': 'let ghost pre = self@;',
             'B1/0': 'proof { lemma_nib_bump(self@[(i / 2) as int], i); }',
             'B0/end': '''proof {
            lemma_nib_read(pre[(i / 2) as int], i);
            if nib(pre[(i / 2) as int], i % 2 == 1) < 15 { lemma_nib_bump(pre[(i / 2) as int], i); }
            assert forall|j: int| 0 <= j < 2 * pre.len() && j != i implies #[trigger] ctr(self@, j) == ctr(pre, j) by { }
        }''',
         },
         props=['C05', 'C11']),
]
ROW_ITEMS = [it for it in ROW_ITEMS if not (it['kind'] == 'raw' and it['text'] is None)]

UNIT = dict(
    name='V-ROW',
    uses='use core::ops::{Index, IndexMut};\nuse vstd::std_specs::core::IndexSpecImpl;\n',
    prelude=PRELUDE,
    items=ROW_ITEMS,
)
