# V-SLFU: SampledLFU cost accounting (C20), extracted verbatim from src/lfu/sampled.rs and proved by Verus
# against the vstd contract of std::collections::HashMap -- unbounded in the number of tracked keys, with
# the exact i64 no-overflow conditions as preconditions (not a 2^40 magnitude bound as in K-SLFU).
#
# Verified on the real bodies: increment_hashed_key, update_hashed_key, clear, room_left, fill_sample, increment, remove,
# update, hash_key.
# Contract only (external_body here, discharged on the real bodies by Kani unit K-SLFU):
#   remove_hashed_key  (Option::inspect with a closure capturing `&mut self.used`: rejected by Verus)
#   get_max_cost       (AtomicI64::load: vstd gives it no postcondition; modelled as reading `atomic_val`)
# Dependency contracts added (assume_specification): HashMap::get_mut (vstd has none; stated with the final value of the
# returned reference), and <&HashMap as IntoIterator>::into_iter has the postcondition vstd
# gives HashMap::iter (std implements it as `self.iter()`); fill_sample's loop is proved against it.
# Not in this unit: update_max_cost (interior mutability through &self), constructors.  They stay with K-SLFU.
import os
F = 'src/lfu/sampled.rs'

KH_TRAIT = r'''
/// the user-supplied key hasher: only assumed to be a function of (hasher state, key)
pub trait KeyHasher<K: Hash + Eq> {
    spec fn spec_hash<Q: ?Sized>(&self, key: &Q) -> u64;

    fn hash_key<Q>(&self, key: &Q) -> (r: u64)
        where K: Borrow<Q>, Q: Hash + Eq + ?Sized
        ensures r == self.spec_hash(key);
}

/// placeholder for the default type argument of SampledLFU (never instantiated in this unit)
pub struct DefaultKeyHasher<K> { marker: PhantomData<K> }
'''

PRELUDE = r'''
broadcast use vstd::std_specs::hash::group_hash_axioms;

/// sum of the recorded costs (mathematical integers)
pub open spec fn map_sum(m: Map<u64, i64>) -> int
    decreases m.len()
{
    if m.len() == 0 { 0 } else { let k = m.dom().choose(); m[k] as int + map_sum(m.remove(k)) }
}

pub open spec fn cost_of(m: Map<u64, i64>, k: u64) -> int { if m.contains_key(k) { m[k] as int } else { 0 } }

pub open spec fn fits(x: int) -> bool { i64::MIN <= x <= i64::MAX }

/// the sum does not depend on the order in which keys are taken out
pub proof fn lemma_sum_remove(m: Map<u64, i64>, k: u64)
    requires m.contains_key(k),
    ensures map_sum(m) == m[k] as int + map_sum(m.remove(k)),
    decreases m.len(),
{
    let c = m.dom().choose();
    if m.len() == 0 {
        assert(m.dom().len() == 0);
        assert(false);
    }
    if c != k {
        assert(m.dom().contains(c));
        lemma_sum_remove(m.remove(c), k);
        lemma_sum_remove(m.remove(k), c);
        assert(m.remove(c).remove(k) =~= m.remove(k).remove(c));
    }
}

pub proof fn lemma_sum_insert(m: Map<u64, i64>, k: u64, v: i64)
    ensures map_sum(m.insert(k, v)) == map_sum(m) - cost_of(m, k) + v as int,
{
    let m2 = m.insert(k, v);
    lemma_sum_remove(m2, k);
    assert(m2.remove(k) =~= m.remove(k));
    if m.contains_key(k) {
        lemma_sum_remove(m, k);
    } else {
        assert(m.remove(k) =~= m);
    }
}

/// dependency contract: `for .. in &map` is `map.iter()` (std implements <&HashMap as IntoIterator>::into_iter as
/// `self.iter()`); the postcondition is the one vstd gives HashMap::iter
pub assume_specification<'a, K, V, S, A: core::alloc::Allocator>[ <&'a HashMap<K, V, S, A> as IntoIterator>::into_iter ](m: &'a HashMap<K, V, S, A>) -> (it: std::collections::hash_map::Iter<'a, K, V>)
    ensures
        obeys_key_model::<K>() && builds_valid_hashers::<S>() ==> {
            &&& it.obeys_prophetic_iter_laws()
            &&& it.decrease() is Some
            &&& it.remaining().no_duplicates()
            &&& it.remaining().len() == m@.len()
            &&& (forall|j: int| 0 <= j < it.remaining().len() ==> m@.contains_pair(*(#[trigger] it.remaining()[j]).0, *it.remaining()[j].1))
        };

/// dependency contract of HashMap::get_mut (vstd has none): the entry of the key `k` borrows to, if any; the table after
/// the borrow ends is the old table with that entry's value replaced by the final value of the reference
pub assume_specification<'a, K: Eq + Hash + Borrow<Q>, V, S: BuildHasher, A: core::alloc::Allocator, Q: Hash + Eq + ?Sized>[ HashMap::<K, V, S, A>::get_mut ](m: &'a mut HashMap<K, V, S, A>, k: &Q) -> (r: Option<&'a mut V>)
    ensures
        obeys_key_model::<K>() && builds_valid_hashers::<S>() ==> {
            match r {
                Some(v) => exists|key: K| {
                    &&& old(m)@.contains_key(key)
                    &&& #[trigger] maps_borrowed_key_to_value(Map::<K, V>::empty().insert(key, *v), k, *v)
                    &&& old(m)@[key] == *v
                    &&& final(m)@ == old(m)@.insert(key, *final(v))
                },
                None => !contains_borrowed_key(old(m)@, k) && final(m)@ == old(m)@,
            }
        };

/// the value an AtomicI64 holds (vstd gives `load` no postcondition); written only by update_max_cost
pub uninterp spec fn atomic_val(a: &AtomicI64) -> i64;
'''

SLFU_SPEC = r'''
impl<K: Hash + Eq, KH: KeyHasher<K>, S: BuildHasher> SampledLFU<K, KH, S> {
    /// the recorded (hashed key -> cost) table
    pub closed spec fn costs(&self) -> Map<u64, i64> { self.key_costs@ }
    /// the running total
    pub closed spec fn total(&self) -> int { self.used as int }
    pub closed spec fn max(&self) -> int { atomic_val(&self.max_cost) as int }
    pub closed spec fn hasher(&self) -> &KH { &self.kh }
    pub closed spec fn sample_size(&self) -> nat { self.samples as nat }

    /// [C20] representation invariant: the running total equals the sum of the costs currently recorded
    pub open spec fn inv(&self) -> bool {
        &&& self.total() == map_sum(self.costs())
    }
}

/// the dependency contract of HashMap is conditional on the hasher type building valid hashers
pub open spec fn hasher_ok<S: BuildHasher>() -> bool { builds_valid_hashers::<S>() }

// ---- negative control (must FAIL: an increment on a tracked key does not simply add on top)
proof fn negctl_insert_adds_on_top(m: Map<u64, i64>, k: u64, v: i64)
    ensures map_sum(m.insert(k, v)) == map_sum(m) + v as int,
{
    lemma_sum_insert(m, k, v);
}
'''

INC_SPEC = '''    requires
        old(self).inv(), hasher_ok::<S>(),
        // exact no-overflow conditions of the two updates of the i64 running total
        fits(old(self).total() - cost_of(old(self).costs(), {H})),
        fits(old(self).total() - cost_of(old(self).costs(), {H}) + cost),
    ensures
        final(self).inv(),
        final(self).costs() == old(self).costs().insert({H}, cost),  // [C20] whole table: only this key changes
        final(self).total() == old(self).total() - cost_of(old(self).costs(), {H}) + cost,  // [C20] true delta, also on a tracked key
        final(self).max() == old(self).max(), final(self).hasher() == old(self).hasher()'''

REM_SPEC = '''    requires
        old(self).inv(), hasher_ok::<S>(),
        fits(old(self).total() - cost_of(old(self).costs(), {H})),
    ensures
        final(self).inv(),
        // [C20] reports exactly whether the key was tracked, and its recorded cost
        r == (if old(self).costs().contains_key({H}) { Some(old(self).costs()[{H}]) } else { None::<i64> }),
        final(self).costs() == old(self).costs().remove({H}),
        final(self).total() == old(self).total() - cost_of(old(self).costs(), {H}),
        final(self).max() == old(self).max(), final(self).hasher() == old(self).hasher()'''

UPD_SPEC = '''    requires
        old(self).inv(), hasher_ok::<S>(),
        old(self).costs().contains_key({H}) ==> fits(cost - old(self).costs()[{H}]) && fits(old(self).total() + (cost - old(self).costs()[{H}])),
    ensures
        final(self).inv(),
        r == old(self).costs().contains_key({H}),  // [C20] reports exactly whether the key was tracked
        final(self).costs() == (if r { old(self).costs().insert({H}, cost) } else { old(self).costs() }),
        final(self).total() == (if r { old(self).total() - old(self).costs()[{H}] + cost } else { old(self).total() }),
        final(self).max() == old(self).max(), final(self).hasher() == old(self).hasher()'''

def H(spec, h):
    return spec.replace('{H}', h)

IMPL = 'SampledLFU'
ITEMS = [
    dict(kind='raw', text=KH_TRAIT),
    dict(kind='struct', file=F, name='SampledLFU', attrs='#[verifier::reject_recursive_types(S)]\n'),
    dict(kind='raw', text=SLFU_SPEC),
    dict(kind='fn', file=F, impl=IMPL, name='get_max_cost', ret='r', external_body=True,
         spec='    ensures r as int == self.max()', props=['C20']),
    dict(kind='fn', file=F, impl=IMPL, name='room_left', ret='r',
         spec='''    requires self.inv(), fits(self.total() + cost), fits(self.max() - (self.total() + cost))
    ensures r as int == self.max() - map_sum(self.costs()) - cost  // [C20] room_left(c) == max_cost - sum of recorded costs - c''',
         props=['C20', 'C05']),
    dict(kind='fn', file=F, impl=IMPL, name='fill_sample', ret='r', attrs='#[verifier::loop_isolation(false)]\n',
         spec='''    requires hasher_ok::<S>()
    ensures
        // [C20] the input comes first, unchanged
        r@.len() >= pairs@.len(), r@.take(pairs@.len() as int) == pairs@,
        // [C20] followed only by genuinely tracked (key, cost) pairs, each tracked key at most once
        forall|i: int| pairs@.len() <= i < r@.len() ==> old(self).costs().contains_pair(r@[i].0, r@[i].1),
        forall|i: int, j: int| pairs@.len() <= i < j < r@.len() ==> r@[i].0 != r@[j].0,
        // [C20] until the sample size is reached (or every tracked pair has been appended)
        r@.len() == (if pairs@.len() >= old(self).sample_size() { pairs@.len() }
                     else if pairs@.len() + old(self).costs().len() <= old(self).sample_size() { pairs@.len() + old(self).costs().len() }
                     else { old(self).sample_size() }),
        final(self).costs() == old(self).costs(), final(self).total() == old(self).total(),
        final(self).max() == old(self).max(), final(self).hasher() == old(self).hasher()''',
         for_names={0: 'it'},
         stmts={'B2/0~for ': 'let ghost p0 = pairs@;'},
         loops={'B3': '''        invariant
            pairs@.len() < self.samples,
            pairs@.len() == p0.len() + it.index(),
            pairs@.take(p0.len() as int) == p0,
            it.seq().no_duplicates(),
            it.seq().len() == self.key_costs@.len(),
            forall|j: int| 0 <= j < it.seq().len() ==> self.key_costs@.contains_pair(*(#[trigger] it.seq()[j]).0, *it.seq()[j].1),
            forall|i: int| p0.len() <= i < pairs@.len() ==> pairs@[i] == (*it.seq()[i - p0.len()].0, *it.seq()[i - p0.len()].1),'''},
         props=['C20', 'C05']),
    dict(kind='fn', file=F, impl=IMPL, name='hash_key', ret='r',
         spec='    ensures r == self.hasher().spec_hash(k)', props=['C20']),
    dict(kind='fn', file=F, impl=IMPL, name='increment_hashed_key', spec=H(INC_SPEC, 'key'),
         stmts={'B0/0~if let Some(': 'proof { lemma_sum_insert(self.key_costs@, key, cost); }'},
         props=['C20', 'C05']),
    dict(kind='fn', file=F, impl=IMPL, name='increment', spec=H(INC_SPEC, 'old(self).hasher().spec_hash(key)'), props=['C20', 'C05']),
    dict(kind='fn', file=F, impl=IMPL, name='remove_hashed_key', ret='r', external_body=True, spec=H(REM_SPEC, 'kh'), props=['C20', 'C05']),
    dict(kind='fn', file=F, impl=IMPL, name='remove', ret='r', spec=H(REM_SPEC, 'old(self).hasher().spec_hash(key)'),
         props=['C20', 'C05']),
    dict(kind='fn', file=F, impl=IMPL, name='clear',
         spec='''    requires old(self).inv(), hasher_ok::<S>()
    ensures final(self).inv(), final(self).costs() == Map::<u64, i64>::empty(), final(self).total() == 0,  // [C20]
        final(self).max() == old(self).max(), final(self).hasher() == old(self).hasher()''',
         props=['C20', 'C05']),
    dict(kind='fn', file=F, impl=IMPL, name='update_hashed_key', ret='r', spec=H(UPD_SPEC, 'k'),
         stmts={'B0/0~match ': 'proof { lemma_sum_insert(self.key_costs@, k, cost); }'}, props=['C20', 'C05']),
    dict(kind='fn', file=F, impl=IMPL, name='update', ret='r', spec=H(UPD_SPEC, 'old(self).hasher().spec_hash(k)'),
         props=['C20', 'C05']),
]

UNIT = dict(
    name='V-SLFU',
    props=['C20', 'C05'],
    crate_attrs='#![feature(allocator_api)]\n',
    uses=('use core::borrow::Borrow;\nuse core::hash::{BuildHasher, Hash};\nuse core::marker::PhantomData;\n'
          'use core::sync::atomic::{AtomicI64, Ordering};\nuse std::collections::HashMap;\n'
          'use std::collections::hash_map::RandomState as DefaultHashBuilder;\nuse vstd::std_specs::hash::*;\nuse vstd::std_specs::iter::IteratorSpec;\n'),
    prelude='global size_of usize == 8;\n' + PRELUDE,
    items=ITEMS,
    negative_controls=['negctl_insert_adds_on_top'],
)
