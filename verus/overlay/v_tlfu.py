# V-TLFU: TinyLFU functions extracted verbatim from src/lfu/tinylfu.rs, verified against
#   * the Bloom contracts proved in V-BLOOM (re-stated here on external_body copies, same spec text),
#   * the CountMinSketch contracts (external_body here; discharged on the real closures-using bodies by K-SKETCH),
#   * an abstract KeyHasher (deterministic function of the key).
import importlib.util, os
_here = os.path.dirname(os.path.abspath(__file__))
def _load(n):
    spec = importlib.util.spec_from_file_location(n, os.path.join(_here, n + '.py'))
    m = importlib.util.module_from_spec(spec); spec.loader.exec_module(m); return m
v_bloom = _load('v_bloom')
v_row = _load('v_row')

T = 'src/lfu/tinylfu.rs'
B = 'src/lfu/tinylfu/bloom.rs'
SK = 'src/lfu/tinylfu/sketch/count_min_sketch_std.rs'
ROW = 'src/lfu/tinylfu/sketch/count_min_row.rs'

def bloom_ext(name):
    it = dict([i for i in v_bloom.ITEMS if i.get('name') == name][0])
    it.pop('stmts', None); it.pop('loops', None)
    it['external_body'] = True
    return it

ROW_SPEC = r'''
// ---- abstract view of a row (same definitions as unit V-ROW)
pub open spec fn nib(b: u8, odd: bool) -> u8 { if odd { (b >> 4u8) & 0x0fu8 } else { b & 0x0fu8 } }
pub open spec fn ctr(s: Seq<u8>, i: int) -> int { nib(s[i / 2], i % 2 == 1) as int }
impl CountMinRow {
    pub closed spec fn view(&self) -> Seq<u8> { self.0@ }
}
'''

SKETCH_SPEC = r'''
pub open spec fn min2(a: int, b: int) -> int { if a <= b { a } else { b } }
pub open spec fn sat15(a: int) -> int { if a < 15 { a + 1 } else { 15 } }

impl CountMinSketch {
    pub closed spec fn width(&self) -> int { self.mask as int + 1 }
    /// position probed in row r for hash h (std build: seeded xor)
    pub closed spec fn pos(&self, r: int, h: u64) -> int { ((h ^ self.seeds[r]) & self.mask) as int }
    /// counter i of row r
    pub closed spec fn cnt(&self, r: int, i: int) -> int { ctr(self.rows[r]@, i) }
    pub closed spec fn shape_inv(&self) -> bool {
        forall|r: int| 0 <= r < 4 ==> 2 * (#[trigger] self.rows[r]@.len()) == self.mask as int + 1
    }
    pub open spec fn inv(&self) -> bool {
        &&& self.shape_inv()
        &&& self.width() >= 2
        &&& (forall|r: int, h: u64| 0 <= r < 4 ==> 0 <= #[trigger] self.pos(r, h) < self.width())
        &&& (forall|r: int, i: int| 0 <= r < 4 && 0 <= i < self.width() ==> 0 <= #[trigger] self.cnt(r, i) <= 15)
    }
    pub closed spec fn same_shape(&self, o: &CountMinSketch) -> bool {
        self.mask == o.mask && self.seeds == o.seeds
    }
    /// count-min estimate of h
    pub open spec fn min_at(&self, h: u64) -> int {
        min2(min2(self.cnt(0, self.pos(0, h)), self.cnt(1, self.pos(1, h))), min2(self.cnt(2, self.pos(2, h)), self.cnt(3, self.pos(3, h))))
    }
    /// self is o after one increment of h
    pub open spec fn bumped_from(&self, o: &CountMinSketch, h: u64) -> bool {
        &&& self.same_shape(o)
        &&& forall|r: int, i: int| 0 <= r < 4 && 0 <= i < o.width() ==>
              #[trigger] self.cnt(r, i) == (if i == o.pos(r, h) { sat15(o.cnt(r, i)) } else { o.cnt(r, i) })
    }
    /// self is o with every counter halved
    pub open spec fn halved_from(&self, o: &CountMinSketch) -> bool {
        &&& self.same_shape(o)
        &&& (forall|r: int, i: int| 0 <= r < 4 && 0 <= i < o.width() ==> #[trigger] self.cnt(r, i) == o.cnt(r, i) / 2)
    }
    pub open spec fn same_counts(&self, o: &CountMinSketch) -> bool {
        &&& self.same_shape(o)
        &&& (forall|r: int, i: int| 0 <= r < 4 && 0 <= i < o.width() ==> #[trigger] self.cnt(r, i) == o.cnt(r, i))
    }
    pub open spec fn is_zero(&self) -> bool {
        forall|r: int, i: int| 0 <= r < 4 && 0 <= i < self.width() ==> #[trigger] self.cnt(r, i) == 0
    }
}
'''

# contracts of the sketch functions: assumed here, discharged on the real bodies by Kani unit K-SKETCH
SK_ESTIMATE = '''    requires self.inv()
    ensures r as int == self.min_at(hashed), r <= 15'''
SK_INCREMENT = '''    requires old(self).inv()
    ensures final(self).inv(), final(self).bumped_from(old(self), hashed)'''
SK_RESET = '''    requires old(self).inv()
    ensures final(self).inv(), final(self).halved_from(old(self))'''
SK_CLEAR = '''    requires old(self).inv()
    ensures final(self).inv(), final(self).same_shape(old(self)), final(self).is_zero()'''

KH_TRAIT = r'''
/// the user-supplied key hasher: only assumed to be a function of (hasher state, key)
pub trait KeyHasher<K: Hash + Eq> {
    spec fn spec_hash<Q: ?Sized>(&self, key: &Q) -> u64;

    fn hash_key<Q>(&self, key: &Q) -> (r: u64)
        where K: Borrow<Q>, Q: Hash + Eq + ?Sized
        ensures r == self.spec_hash(key);
}

/// placeholder for the default type argument of TinyLFU (never instantiated in this unit)
pub struct DefaultKeyHasher<K> { marker: PhantomData<K> }
'''

TLFU_SPEC = r'''
impl<K: Hash + Eq, KH: KeyHasher<K>> TinyLFU<K, KH> {
    pub closed spec fn sk(&self) -> &CountMinSketch { &self.ctr }
    pub closed spec fn dk(&self) -> &Bloom { &self.doorkeeper }
    pub closed spec fn window(&self) -> int { self.w as int }
    pub closed spec fn sample_size(&self) -> int { self.samples as int }
    pub closed spec fn hasher(&self) -> &KH { &self.kh }

    pub open spec fn inv(&self) -> bool {
        &&& self.sk().inv()
        &&& self.dk().inv()
        &&& 0 <= self.window() < self.sample_size()
    }
    /// fewer than 2^64 doorkeeper insertions in total (the Bloom filter's dead `elem_num` counter)
    pub open spec fn budget(&self) -> bool { self.dk().elems() + self.dk().locs() <= u64::MAX }

    /// the estimate C11 talks about: count-min minimum plus the doorkeeper bit
    pub open spec fn est(&self, h: u64) -> int { self.sk().min_at(h) + (if self.dk().has(h) { 1int } else { 0int }) }

    /// `self` is `o` after the window counter ticked once (try_reset): reset exactly when it reaches the sample size
    pub open spec fn ticked_from(&self, o: &Self) -> bool {
        &&& self.sample_size() == o.sample_size()
        &&& self.dk().same_config(o.dk())
        &&& if o.window() + 1 >= o.sample_size() {
                self.window() == 0 && self.dk().is_clear() && self.sk().halved_from(o.sk())
            } else {
                self.window() == o.window() + 1 && self.dk().bits() == o.dk().bits() && self.sk().same_counts(o.sk())
            }
    }

    /// `self` is `o` after the access to hash h was recorded, before the window tick
    pub open spec fn recorded_from(&self, o: &Self, h: u64) -> bool {
        &&& self.sample_size() == o.sample_size() && self.window() == o.window()
        &&& self.dk().same_config(o.dk())
        &&& if o.dk().has(h) {
                self.dk().bits() == o.dk().bits() && self.sk().bumped_from(o.sk(), h)
            } else {
                self.dk().has(h) && self.dk().includes(o.dk()) && self.sk().same_counts(o.sk())
            }
    }
}
'''

INCR_SPEC = '''    requires old(self).inv(), old(self).budget()
    ensures
        final(self).inv(),
        // [C11] one recorded access: doorkeeper first, sketch only if the doorkeeper already had the key; then one window tick
        exists|mid: Self| #[trigger] mid.recorded_from(old(self), {H}) && mid.inv() && final(self).ticked_from(&mid)'''

def cmp_fn(name, op):
    return dict(kind='fn', file=T, impl='TinyLFU', name=name, nth=0, ret='r',
                spec='''    requires self.inv()
    ensures r == (self.est(self.hasher().spec_hash(a)) %s self.est(self.hasher().spec_hash(b)))  // [C11] compares exactly as the estimates do''' % op,
                props=['C11'])

LEMMAS = open(os.path.join(_here, 'tlfu_lemmas.rs')).read()

ITEMS = [
    dict(kind='const', file='src/lfu/tinylfu/sketch.rs', name='DEPTH'),
    dict(kind='struct', file=ROW, name='CountMinRow'),
    dict(kind='raw', text=ROW_SPEC),
    dict(kind='struct', file=SK, name='CountMinSketch'),
    dict(kind='raw', text=SKETCH_SPEC),
    dict(kind='fn', file=SK, impl='CountMinSketch', name='estimate', ret='r', spec=SK_ESTIMATE, external_body=True, props=['C11', 'C05']),
    dict(kind='fn', file=SK, impl='CountMinSketch', name='increment', spec=SK_INCREMENT, external_body=True, props=['C11', 'C05']),
    dict(kind='fn', file=SK, impl='CountMinSketch', name='reset', spec=SK_RESET, external_body=True, props=['C11', 'C05']),
    dict(kind='fn', file=SK, impl='CountMinSketch', name='clear', spec=SK_CLEAR, external_body=True, props=['C11', 'C05']),
    dict(kind='struct', file=B, name='Bloom'),
    dict(kind='raw', text=v_bloom.PRELUDE.replace('global size_of usize == 8;', '')),
    bloom_ext('contains'), bloom_ext('contains_or_add'), bloom_ext('clear'),
    dict(kind='raw', text=KH_TRAIT),
    dict(kind='struct', file=T, name='TinyLFU'),
    dict(kind='raw', text=TLFU_SPEC),
    dict(kind='raw', text=LEMMAS),
    dict(kind='fn', file=T, impl='TinyLFU', name='hash_key', ret='r',
         spec='    ensures r == self.hasher().spec_hash(k)', props=['C11']),
    dict(kind='fn', file=T, impl='TinyLFU', name='estimate', ret='r',
         spec='''    requires self.inv()
    ensures r as int == self.est(self.hasher().spec_hash(key)), r <= 16  // [C11] estimate = sketch minimum + doorkeeper bit, never above 16''',
         props=['C11', 'C05']),
    dict(kind='fn', file=T, impl='TinyLFU', name='estimate_hashed_key', ret='r',
         spec='''    requires self.inv()
    ensures r as int == self.est(kh), r <= 16  // [C11]''',
         props=['C11', 'C05']),
    dict(kind='fn', file=T, impl='TinyLFU', name='increment',
         spec=INCR_SPEC.replace('{H}', 'old(self).hasher().spec_hash(key)'),
         stmts={'B0/2~self.try_reset': 'let ghost mid = *self;\n        proof { assert(mid.recorded_from(old(self), old(self).hasher().spec_hash(key))); }',
                'B0/end': 'proof { assert(self.ticked_from(&mid)); }'},
         props=['C11', 'C05']),
    dict(kind='fn', file=T, impl='TinyLFU', name='increment_hashed_key',
         spec=INCR_SPEC.replace('{H}', 'kh'),
         stmts={'B0/1~self.try_reset': 'let ghost mid = *self;\n        proof { assert(mid.recorded_from(old(self), kh)); }',
                'B0/end': 'proof { assert(self.ticked_from(&mid)); }'},
         props=['C11', 'C05']),
    dict(kind='fn', file=T, impl='TinyLFU', name='try_reset',
         spec='''    requires old(self).inv()
    ensures final(self).inv(), final(self).ticked_from(old(self)),  // [C11] reset exactly when accesses + try_reset calls reach the sample size
        final(self).dk().elems() == old(self).dk().elems(), final(self).hasher() == old(self).hasher()''',
         props=['C11', 'C05']),
    dict(kind='fn', file=T, impl='TinyLFU', name='reset',
         spec='''    requires old(self).sk().inv(), old(self).dk().inv(), 0 < old(self).sample_size()
    ensures final(self).inv(), final(self).sample_size() == old(self).sample_size(), final(self).window() == 0,
        final(self).dk().is_clear(), final(self).dk().same_config(old(self).dk()), final(self).sk().halved_from(old(self).sk()),
        final(self).dk().elems() == old(self).dk().elems(), final(self).hasher() == old(self).hasher()''',
         props=['C11', 'C05']),
    dict(kind='fn', file=T, impl='TinyLFU', name='clear',
         spec='''    requires old(self).inv()
    ensures final(self).inv(), final(self).sample_size() == old(self).sample_size(), final(self).window() == 0,
        final(self).dk().is_clear(), final(self).dk().same_config(old(self).dk()), final(self).sk().is_zero(),
        final(self).hasher() == old(self).hasher()''',
         props=['C11', 'C05']),
    dict(kind='fn', file=T, impl='TinyLFU', name='contains', ret='r',
         spec='''    requires self.inv()
    ensures r == self.dk().has(self.hasher().spec_hash(key))''', props=['C11']),
    dict(kind='fn', file=T, impl='TinyLFU', name='contains_hash', ret='r',
         spec='''    requires self.inv()
    ensures r == self.dk().has(kh)''', props=['C11']),
    dict(kind='fn', file=T, impl='TinyLFU', name='compare_helper', ret='r',
         spec='''    requires self.inv()
    ensures  // [C11] the pair orders exactly as the two estimates do
        (r.0 < r.1) == (self.est(self.hasher().spec_hash(a)) < self.est(self.hasher().spec_hash(b))),
        (r.0 == r.1) == (self.est(self.hasher().spec_hash(a)) == self.est(self.hasher().spec_hash(b)))''',
         props=['C11']),
    cmp_fn('eq', '=='), cmp_fn('le', '<='), cmp_fn('lt', '<'), cmp_fn('gt', '>'), cmp_fn('ge', '>='),
]

UNIT = dict(
    name='V-TLFU',
    props=['C11', 'C05'],
    uses='use core::borrow::Borrow;\nuse core::hash::Hash;\nuse core::marker::PhantomData;\n',
    prelude='global size_of usize == 8;\n',
    items=ITEMS,
    negative_controls=['negctl_never_overcounts', 'negctl_record_always_bumps'],
)
